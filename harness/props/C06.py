"""C06 — rpc-error surfacing follows raise mode, severity and exemptions."""
from core import Check, hexs, hlist, unhexs, unhlist

BASE_NS = 'urn:ietf:params:xml:ns:netconf:base:1.0'
FIELDS = ['error-type', 'error-tag', 'error-severity', 'error-app-tag', 'error-path', 'error-message', 'error-info']
ATTR = {'error-type': 'type', 'error-tag': 'tag', 'error-severity': 'severity', 'error-app-tag': 'app_tag', 'error-path': 'path',
        'error-message': 'message', 'error-info': 'info'}
SEVS = ['error', 'warning', None, 'Error', ' error ', 'fatal']
MSGS = ['VLAN with the same name exists', 'statement not found', 'Object Exists', '  padded text  ', 'x', 'abc def ghi', 'ABC',
        'config lock held', 'ünïcode ★ message', 'Ungültige Größe', 'τέλος', None]
PATS = ['*VLAN with the same name exists*', 'statement not found', '*not found', 'object*', '*def*', 'abc', '*', 'x*', '*x', '**',
        'ABC DEF GHI', '  padded text', 'no error given', '*lock*', 'ünïcode ★ message', '*Ungültige Größe*', 'ungültige grö*', '*τέλος']


def esc(s):
    return s.replace('&', '&amp;').replace('<', '&lt;').replace('>', '&gt;')


WORDS = ['VLAN', 'with', 'the', 'same', 'name', 'exists', 'statement', 'not', 'found', 'lock', 'held', 'ignored', 'x', 'Object']
SEPS = [' ', ' ', ' ', '  ', '\t', '\n', ' \n  ', '   ']


def syn_msg(rng):
    """2-5 words joined by varying white space (single / double blanks, TAB, line feed), optionally padded."""
    ws = [rng.choice(WORDS) for _ in range(rng.randint(2, 5))]
    out = ws[0]
    for w in ws[1:]:
        out += rng.choice(SEPS) + w
    if rng.random() < 0.2:
        out = rng.choice([' ', '\n', '  ']) + out + rng.choice([' ', '\n', ''])
    return out


def derived_pat(rng, msg):
    """A pattern cut out of a message: exact / prefix* / *suffix / *infix*, with the case and sometimes the white space altered
    (near misses: a pattern that differs from the text only in the amount or kind of inner white space must NOT match)."""
    words = msg.split()
    sep = lambda: rng.choice([None, None, ' ', '  ', '\t'])
    core = msg.strip()
    r = rng.random()
    if r < 0.35 and len(words) > 1:
        # re-join with other separators -> near miss (or identical when the original used single blanks)
        j = rng.choice([' ', '  ', '\t', '\n'])
        core = j.join(words)
    k = rng.random()
    if k < 0.25:
        pat = core
    elif k < 0.5:
        cut = rng.randint(1, max(1, len(core) - 1))
        pat = core[:cut] + '*'
    elif k < 0.75:
        cut = rng.randint(0, max(0, len(core) - 1))
        pat = '*' + core[cut:]
    else:
        a = rng.randint(0, max(0, len(core) - 1))
        b = rng.randint(a, len(core))
        pat = '*' + core[a:b] + '*'
    # case changes on ASCII letters only (the model's lower() is ASCII; cased non-ASCII letters are outside the generators)
    up = ''.join(c.upper() if 'a' <= c <= 'z' else c for c in pat)
    lo = ''.join(c.lower() if 'A' <= c <= 'Z' else c for c in pat)
    return rng.choice([pat, up, lo])


def gen_error(rng):
    fields = []
    for f in FIELDS:
        if f == 'error-severity':
            v = rng.choice(SEVS)
        elif f == 'error-message':
            v = rng.choice(MSGS) if rng.random() < 0.5 else syn_msg(rng)
        elif f == 'error-info':
            v = rng.choice([None, None, '<bad-element>x</bad-element>', '<a><b>1</b></a>'])
        else:
            v = rng.choice([None, 'application', 'operation-failed', 'protocol', 'é/path[1]'])
        if v is not None:
            fields.append([f, v])
    rng.shuffle(fields)
    if fields and rng.random() < 0.08:
        # a field element occurring twice in one rpc-error: the later one is what the error object reports
        k = rng.choice([f for f in fields if f[0] != 'error-info'] or fields)
        if k[0] != 'error-info':
            fields.insert(rng.randint(0, len(fields)), [k[0], rng.choice(['dup', 'error', 'warning', 'x y'])])
    return fields


def gen_case(rng):
    n = rng.choice([0, 1, 1, 2, 2, 3, 5])
    errs = [gen_error(rng) for _ in range(n)]
    if rng.random() < 0.03:
        # a long list of rpc-errors (a commit check over a large configuration): warnings, with the only error - if any - far down the list
        n = rng.choice([51, 64, 150])
        errs = [[['error-severity', 'warning'], ['error-message', 'w%d' % i]] for i in range(n)]
        if rng.random() < 0.7:
            errs[min(n - 1, rng.choice([n - 1, n - 2, 50, n // 2 + 26]))] = [['error-severity', 'error'], ['error-message', 'the one that matters'], ['error-tag', 'operation-failed']]
    r = rng.random()
    pats = [] if r < 0.45 else rng.sample(PATS, rng.randint(1, 3))
    msgs = [dict(e).get('error-message') for e in errs if dict(e).get('error-message')]
    if msgs and r >= 0.45 and rng.random() < 0.6:
        pats = pats[:rng.randint(0, 1)] + [derived_pat(rng, rng.choice(msgs)) for _ in range(rng.randint(1, 2))]
    profile = 'nexus' if rng.random() < 0.15 else 'default'
    case = {'errs': errs, 'ok_too': rng.random() < 0.07, 'mode': rng.choice([0, 1, 2]), 'pats': pats, 'profile': profile,
            'nested': rng.random() < 0.05, 'prefixed': rng.random() < 0.25, 'ok_nested': rng.choice([None] * 14 + ['before', 'after']),
            'op': rng.choice(['get_config'] * 4 + ['get', 'discard_changes', 'close_session', 'kill_session', 'lock', 'commit'])}
    if rng.random() < 0.06:
        # the mode and the exempt list travel from the connect parameters (errors_params) through the public connect_uds entry point
        case['via'] = 'connect'
        if case['mode'] == 2 and rng.random() < 0.5:
            case['mode_key'] = 'absent'        # no raise_mode given: the documented default is ALL
    return case


def reply_xml(case, mid):
    body = ''
    for e in case['errs']:
        inner = ''
        for k, v in e:
            inner += '<%s>%s</%s>' % (k, v if k == 'error-info' else esc(v), k)
        body += '<rpc-error>%s</rpc-error>' % inner
    if case.get('nested') and body:
        body = '<data>%s</data>' % body
    if case.get('ok_nested'):
        # an <ok/> that is NOT a child of <rpc-reply> (inside a results wrapper, as Junos nests it) says nothing about the reply's errors
        wrap = '<load-configuration-results><ok/></load-configuration-results>'
        body = (wrap + body) if case['ok_nested'] == 'before' else (body + wrap)
    doc = '<rpc-reply message-id="%s" xmlns="%s">%s%s</rpc-reply>' % (mid, BASE_NS, '<ok/>' if case['ok_too'] else '', body)
    if case.get('prefixed'):
        # the same document with the base namespace bound to a prefix; the content of error-info keeps its own (absent) namespace
        import re as _re
        keep = {}

        def stash(m):
            keep['@%d@' % len(keep)] = m.group(0)
            return '@%d@' % (len(keep) - 1)
        t = _re.sub(r'<error-info>.*?</error-info>', stash, doc, flags=_re.S)
        t = t.replace(' xmlns="%s"' % BASE_NS, ' xmlns:nc="%s"' % BASE_NS)
        t = _re.sub(r'<(/?)([a-z])', r'<\1nc:\2', t)
        for kk, v in keep.items():
            inner = v[len('<error-info>'):-len('</error-info>')]
            t = t.replace(kk, '<nc:error-info>%s</nc:error-info>' % inner)
        return t
    return doc


def spec_matches(pat, text):
    """exact / prefix* / *suffix / *infix* — written from the documentation of _EXEMPT_ERRORS."""
    p = pat.lower()
    if p.startswith('*') and p.endswith('*'):
        return p[1:-1] in text
    if p.startswith('*'):
        return text.endswith(p[1:])
    if p.endswith('*'):
        return text.startswith(p[:-1])
    return text == p


def spec_exempt(pats, msg):
    text = msg.lower().strip() if msg is not None else 'no error given'
    return any(spec_matches(p, text) for p in pats)


def effective_pats(case):
    # user-supplied ignore_errors REPLACE the profile's built-in list (DefaultDeviceHandler.__init__)
    if case['pats']:
        return case['pats']
    return ['*VLAN with the same name exists*', '*returned error 5001*'] if case['profile'] == 'nexus' else []


class C06(Check):
    ID = 'C06'
    PROPS_MODULE = 'NcVerif.Props.C06'
    RULE = ('replies with 0-5 rpc-errors over all severity combinations (error / warning / absent / other case / padded / unknown), each '
            'optional field present or absent in shuffled order, nested error-info, optional <ok/>, errors nested under <data>; x 3 raise '
            'modes x exempt pattern sets (exact / prefix* / *suffix / *infix* / "*" / "**", user list and the nexus built-in list; messages '
            'of several words joined by single / double blanks, TAB, line feed, and patterns cut out of them with the case or the white space altered) run '
            'through the REAL RPC._request / RPCReplyListener / RPCReply.parse on a stub session, and (6 % of the cases) through the public connect_uds entry point with errors_params against a Unix-socket server; histories of 2-4 connects that are handed the SAME manager_params / errors_params dictionary. Replies with 51-150 rpc-errors, <ok/> next to rpc-errors (known finding) and nested in a results wrapper, prefixed replies, every operation of the catalogue. Non-trivial = at least one rpc-error; '
            'distinct by case.')
    TRUST = ['str.lower() is modelled for ASCII letters only; generators use ASCII letters plus uncased Unicode',
             'lxml parsing of the reply (error fields are taken from the parsed tree: environment)']
    ASSUMPTIONS = ['a reply with both <ok/> and rpc-error: the code reports no errors (known finding C06:ok-element-hides-rpc-errors; theorems carry the hypothesis "no <ok/> child"); with several errors, those whose message is exempt do '
                   'not count and the decision is taken on the others']

    def cases(self, rng, tier):
        n = 1500 if tier == 'quick' else 40000
        fixed = [
            {'errs': [[['error-severity', 'warning'], ['error-message', 'w1']], [['error-severity', 'error'], ['error-message', 'e2']]],
             'ok_too': False, 'mode': 1, 'pats': [], 'profile': 'default', 'nested': False},
            {'errs': [[['error-severity', 'warning'], ['error-message', 'w1']], [['error-severity', 'warning'], ['error-message', 'w2']]],
             'ok_too': False, 'mode': 2, 'pats': [], 'profile': 'default', 'nested': False},
            {'errs': [[['error-severity', 'error'], ['error-message', 'VLAN with the same name exists (x)']]],
             'ok_too': False, 'mode': 2, 'pats': [], 'profile': 'nexus', 'nested': False},
        ]
        return fixed + [gen_case(rng) for _ in range(n)] + [self.gen_connseq(rng) for _ in range(25 if tier == 'quick' else 600)]

    def search(self, tier, rng, broken):
        return [gen_case(rng) for _ in range(20000)]

    # ---- histories of connects that share the caller's parameter dictionaries ----------------------------------------------
    def gen_connseq(self, rng):
        steps = []
        for _ in range(rng.randint(2, 4)):
            c = gen_case(rng)
            c.pop('via', None)
            c['mode_key'] = 'absent' if (c['mode'] == 2 and rng.random() < 0.4) else 'given'
            steps.append(c)
        return {'kind': 'connseq', 'steps': steps, 'share': rng.choice(['manager_params', 'errors_params', 'both'])}

    def run_connseq(self, case):
        """One settings dict (manager_params and / or errors_params) handed to several connect_uds calls in a row, the caller changing
        only what differs: every manager must follow ITS OWN raise mode and exempt list."""
        from impl import fakeserver as FS
        from ncclient import manager
        from ncclient.operations import RaiseMode
        mp = {'timeout': 5}
        shared_ep = {}
        out = []
        for st in case['steps']:
            srv = FS.UnixServer(handler=lambda srv, req, st=st: [('send', reply_xml(st, FS.msg_id_of(req)))])
            ep = shared_ep if case['share'] in ('errors_params', 'both') else {}
            ep.pop('raise_mode', None)
            ep.pop('ignore_errors', None)
            if st.get('mode_key') != 'absent':
                ep['raise_mode'] = {0: RaiseMode.NONE, 1: RaiseMode.ERRORS, 2: RaiseMode.ALL}[st['mode']]
            if st['pats']:
                ep['ignore_errors'] = list(st['pats'])
            kw = dict(path=srv.path, device_params={'name': st['profile']}, errors_params=ep, timeout=5)
            if case['share'] in ('manager_params', 'both'):
                kw['manager_params'] = mp
            try:
                try:
                    m = manager.connect_uds(**kw)
                except Exception as e:
                    out.append({'raised': 'connect:' + type(e).__name__})
                    continue
                try:
                    out.append(self._call(m))
                finally:
                    try:
                        m._session.close()
                    except Exception:
                        pass
            finally:
                srv.cleanup()
        return {'steps': out}

    def run_impl(self, case):
        if case.get('kind') == 'connseq':
            return self.run_connseq(case)
        from impl.rpcstub import make_manager
        from ncclient.operations import RPCError
        srv = None
        if case.get('via') == 'connect':
            from impl import fakeserver as FS
            from ncclient import manager
            from ncclient.operations import RaiseMode
            srv = FS.UnixServer(handler=lambda srv, req: [('send', reply_xml(case, FS.msg_id_of(req)))])
            ep = {}
            if case.get('mode_key') != 'absent':
                ep['raise_mode'] = {0: RaiseMode.NONE, 1: RaiseMode.ERRORS, 2: RaiseMode.ALL}[case['mode']]
            if case['pats']:
                ep['ignore_errors'] = list(case['pats'])
            try:
                m = manager.connect_uds(path=srv.path, device_params={'name': case['profile']}, errors_params=ep, timeout=5)
            except Exception as e:
                srv.cleanup()
                return {'raised': 'connect:' + type(e).__name__}
            m.timeout = 5
        else:
            m, s, dh = make_manager(profile=case['profile'], responder=lambda req, mid: reply_xml(case, mid),
                                    ignore_errors=case['pats'] or None, raise_mode=case['mode'],
                                    server_caps=__import__('gen.optable', fromlist=['x']).ALL_CAPS)
        try:
            # the decision is the same for every operation: the reply is answered to one of several standard calls
            self._op = case.get('op', 'get_config')
            return self._call(m)
        finally:
            self._op = 'get_config'
            if srv is not None:
                try:
                    m._session.close()
                except Exception:
                    pass
                srv.cleanup()

    def _call(self, m):
        from ncclient.operations import RPCError

        def err_row(e):
            return [getattr(e, ATTR[f]) for f in FIELDS]
        try:
            op = getattr(self, '_op', 'get_config')
            r = {'get_config': lambda: m.get_config(source='running'), 'get': lambda: m.get(), 'discard_changes': lambda: m.discard_changes(),
                 'close_session': lambda: m.close_session(), 'kill_session': lambda: m.kill_session('7'), 'lock': lambda: m.lock('running'),
                 'commit': lambda: m.commit()}[op]()
        except RPCError as e:
            return {'raised': True, 'severity': e.severity, 'n': None if e.errlist is None else len(e.errlist),
                    'errors': [err_row(x) for x in (e.errlist if e.errlist is not None else [e])]}
        except Exception as e:
            return {'raised': 'other:' + type(e).__name__}
        return {'raised': False, 'ok': r.ok, 'errors': [err_row(x) for x in r.errors]}

    def doc_tokens(self, case):
        """The reply document as the driver's tree tokens: base-namespace elements under their local names, others as {ns}local."""
        import xml.etree.ElementTree as ET

        def name(tag):
            if tag.startswith('{' + BASE_NS + '}'):
                return tag[len(BASE_NS) + 2:]
            return tag

        def toks(el):
            kids = []
            if el.text:
                kids.append(['T', hexs(el.text)])
            for c in el:
                kids.append(toks(c))
                if c.tail:
                    kids.append(['T', hexs(c.tail)])
            out = ['E', hexs(name(el.tag)), str(len(el.attrib))]
            for k, v in el.attrib.items():
                out += [hexs(name(k)), hexs(v)]
            out.append(str(len(kids)))
            for k in kids:
                out += k
            return out
        return toks(ET.fromstring(reply_xml(case, 'MID').encode('utf-8')))

    def model_lines(self, case):
        if case.get('kind') == 'connseq':
            return [l for st in case['steps'] for l in self.model_lines(st)]
        if case.get('doc', True):
            return ['re doc %d %s %s' % (case['mode'], hlist(hexs(p) for p in effective_pats(case)), ' '.join(self.doc_tokens(case)))]
        errs = []
        for e in case['errs']:
            d = dict(e)
            errs.append(';'.join((hexs(d[f]) if f in d and f != 'error-info' else ('p' if f in d else '-')) for f in FIELDS))
        # the reply parser ignores the errors when <ok/> is present: modelled by hasOk
        return ['re run %d %d %s %s' % (case['mode'], 1 if case['ok_too'] else 0, hlist(hexs(p) for p in effective_pats(case)), hlist(errs))]

    def model_obs(self, case, outs):
        if case.get('kind') == 'connseq':
            return {'steps': [self.model_obs(st, [o]) for st, o in zip(case['steps'], outs)]}
        t = outs[0].split(' ')
        # raised|reply  severity  n  [error fields as the model extracted them from the document]
        rows = None
        if len(t) >= 4:
            rows = []
            for e in unhlist(t[3]):
                f = e.split(';')
                rows.append([None if x == '-' else unhexs(x) for x in f[:6]] + [f[6] == 'p'])
        if t[0] == 'raised':
            return {'raised': True, 'severity': None if t[1] == '-' else unhexs(t[1]), 'n': None if t[2] == '-' else int(t[2]), 'rows': rows}
        return {'raised': False, 'ok': t[1] == '1', 'nerr': int(t[2]), 'rows': rows}

    def compare(self, case, io, mo):
        if mo is None:
            return None
        if case.get('kind') == 'connseq':
            for k, (st, i, m) in enumerate(zip(case['steps'], io['steps'], mo['steps'])):
                d = self.compare(st, i, m)
                if d:
                    return 'connect %d of %d sharing %s: %s' % (k + 1, len(case['steps']), case['share'], d)
            return None
        mo = dict(mo)
        mrows = mo.pop('rows', None)
        if io.get('raised') is True:
            got = {'raised': True, 'severity': io['severity'], 'n': io['n']}
        elif io.get('raised') is False:
            got = {'raised': False, 'ok': io['ok'], 'nerr': len(io['errors'])}
        else:
            got = io
        if got != mo:
            return 'impl=%r model=%r' % (got, mo)
        if mrows is not None and io.get('raised') in (True, False):
            # field order of FIELDS: type, tag, severity, app-tag, path, message, info
            irows = [[r[0], r[1], r[2], r[3], r[4], r[5], r[6] is not None] for r in io['errors']]
            if irows != mrows:
                return 'error fields extracted from the document differ: impl=%r model=%r' % (irows[:3], mrows[:3])
        return None

    def oracle(self, case, io):
        if case.get('kind') == 'connseq':
            for k, (st, i) in enumerate(zip(case['steps'], io['steps'])):
                r = self.oracle(st, i)
                if r and r[0] == 'C06:ok-element-hides-rpc-errors':
                    return r            # the known finding is the same on every path
                if r:
                    return (r[0] + '@connect-history', 'connect %d of %d (the caller hands the same %s dict to every connect): %s' % (k + 1, len(case['steps']), case['share'], r[1]))
            return None
        if io.get('raised') not in (True, False):
            return ('C06:unexpected-exception', 'call raised %s' % io.get('raised'))
        errs = [dict(e) for e in case['errs']]
        msgs = [e.get('error-message') for e in errs]
        sevs = [e.get('error-severity') for e in errs]
        pats = effective_pats(case)
        visible = [] if case['ok_too'] else errs
        # --- error list mirrors the rpc-errors ---
        rows = io['errors']
        if not case['ok_too']:
            if len(rows) != len(errs):
                return ('C06:error-list-length', 'reply has %d rpc-errors, error list has %d' % (len(errs), len(rows)))
            for row, e in zip(rows, errs):
                for f, v in zip(FIELDS, row):
                    if f == 'error-info':
                        if (v is None) != (f not in e):
                            return ('C06:error-field', 'error-info presence differs')
                    elif v != e.get(f):
                        return ('C06:error-field', '%s is %r, reply said %r' % (f, v, e.get(f)))
            if io['raised'] is False and io['ok'] != (len(errs) == 0):
                return ('C06:ok-flag', 'ok=%r with %d rpc-errors' % (io['ok'], len(errs)))
        else:
            # <ok/> next to rpc-errors (what e.g. Junos sends for a commit with warnings): the statement says `ok` iff NO rpc-error and that the
            # error list mirrors them; the parser stops looking for errors once it has seen <ok/> (known finding, see known_findings.json)
            if errs and io['raised'] is False and (io['ok'] or len(rows) != len(errs)):
                return ('C06:ok-element-hides-rpc-errors', 'reply with <ok/> AND %d rpc-error(s) (severities %s): ok=%r, error list has %d entries' % (
                    len(errs), sevs, io['ok'], len(rows)))
            return None
        # --- raise decision ---
        ex = [spec_exempt(pats, m) for m in msgs]
        # an error whose message is exempt does not count; the decision is taken on the others
        rest = [s_ for s_, e_ in zip(sevs, ex) if not e_]
        if case['mode'] == 0 or not rest:
            want = False
        else:
            want = case['mode'] == 2 or any(s_ == 'error' for s_ in rest)
        if want is not None and io['raised'] != want:
            return ('C06:raise-decision' + ('-first-error-only' if len(errs) > 1 else ''),
                    'mode=%d severities=%r exempt=%r: %s' % (case['mode'], sevs, ex, 'raised' if io['raised'] else 'did not raise'))
        if io['raised']:
            if len(errs) > 1:
                if io['n'] != len(errs):
                    return ('C06:aggregate-incomplete', 'aggregate carries %r of %d errors' % (io['n'], len(errs)))
                want_sev = 'error' if any(s == 'error' for s in sevs) else 'warning'
                if io['severity'] != want_sev:
                    return ('C06:aggregate-severity', 'aggregate severity %r for constituents %r' % (io['severity'], sevs))
        return None

    def nontrivial(self, case, io):
        if case.get('kind') == 'connseq':
            return any(len(st['errs']) >= 1 for st in case['steps'])
        return len(case['errs']) >= 1


CHECK = C06
