"""C16 — device profiles are complete, consistent and isolated."""
import copy

from core import Check, hexs, hlist, unhexs, unhlist, LEAN, REPO

BASE_URIS = {'urn:ietf:params:netconf:base:1.0', 'urn:ietf:params:netconf:base:1.1',
             'urn:ietf:params:xml:ns:netconf:base:1.0', 'urn:ietf:params:xml:ns:netconf:base:1.1'}
DOCUMENTED = ['alu', 'ciena', 'csr', 'h3c', 'hpcomware', 'huawei', 'huaweiyang', 'iosxe', 'iosxr', 'junos', 'nexus', 'sros', 'default']
SAMPLES = ['VLAN with the same name exists', 'some other error', 'statement not found', None, 'FOO bar']


def observe(dh):
    """What a user can see through one handler."""
    from ncclient import manager
    from impl.rpcstub import StubSession
    m = manager.Manager(StubSession([]), dh)
    ops = {}
    for n in sorted(set(manager.OPERATIONS) | set(m._vendor_operations)):
        a = getattr(m, n)
        ops[n] = a.args[0].__module__ + '.' + a.args[0].__name__
    return {'caps': list(dh.get_capabilities()), 'base_ns': sorted((str(k), v) for k, v in dh.get_xml_base_namespace_dict().items()),
            'prefix': sorted((str(k), v) for k, v in (dh.get_xml_extra_prefix_kwargs().get('nsmap') or {}).items()),
            'subs': list(dh.get_ssh_subsystem_names()), 'exempt': [bool(dh.is_rpc_error_exempt(s)) for s in SAMPLES],
            'qualify': bool(dh.perform_qualify_check()), 'ops': ops}


def gen_history(rng, names):
    ops = []
    for _ in range(rng.randint(3, 10)):
        k = rng.choice(['construct', 'construct-params', 'mutate', 'manager', 'xpath', 'exempt', 'inspect'])
        ops.append([k, rng.choice(names), rng.randrange(1 << 20)])
    return {'kind': 'history', 'watch': rng.sample(names, 3), 'ops': ops}


class C16(Check):
    ID = 'C16'
    PROPS_MODULE = 'NcVerif.Props.C16'
    RULE = ('(a) one case per shipped profile (14): class, advertised name, capability list incl. user extras, SSH subsystem candidates for no / '
            'a new / an existing preferred name, vendor and standard operation resolution through a real Manager; (b) random histories over '
            'several live handlers and managers: constructions with device_params / nc_params / ignore_errors variations, mutation of every '
            'list and dict the getters return, Manager construction, NCElement.xpath with caller namespaces - after each step the observations '
            'through every watched (old) handler AND through a fresh handler of each watched profile must be unchanged; (c) the model\'s '
            'resolve / subsystem rule compared with Manager.__getattr__ / the nexus handler. Sequences of SSH connects to one host:port (names requested from the server), caller argument objects shared between constructions, introspection (dir / repr / hasattr) steps, additional capabilities that look like base URIs. Non-trivial = history of >= 3 operations or a profile row.')
    TRUST = ['the catalogue of public calls probed for shared-state writes (harness/gen/isolation.py)']

    def gen_tables(self, log):
        from gen import profiles, isolation
        r = profiles.generate(REPO, LEAN)
        self._profiles = r['profiles']
        self._std = r['std']
        self._advertised = r['advertised']
        i = isolation.generate(REPO, LEAN)
        self._iso = i['rows']
        log['gen_profiles_rows'] = len(self._profiles)
        log['gen_isolation_rows'] = len(self._iso)

    def cases(self, rng, tier):
        names = [p['name'] for p in getattr(self, '_profiles', [])]
        out = [{'kind': 'profile', 'name': n} for n in names]
        out += [{'kind': 'iso', 'i': i} for i in range(len(getattr(self, '_iso', [])))]
        out += [{'kind': 'userhandler', 'reuse': r, 'with_name': w} for r in (2, 3) for w in (False, True)]
        n = 60 if tier == 'quick' else 1500
        out += [gen_history(rng, names) for _ in range(n)]
        for _ in range(100 if tier == 'quick' else 2000):
            p = rng.choice(self._profiles)
            nm = rng.choice([k for k, _ in self._std] + [k for k, _ in p['vendor']] + ['no_such_op'])
            out.append({'kind': 'resolve', 'profile': p['name'], 'name': nm})
            # preferred subsystem names: none, a built-in candidate, a new one, and names that differ from a built-in one only by
            # white space or case (they are DIFFERENT names for an SSH server); on every profile that documents the preference
            prefp = [x['name'] for x in self._profiles if x.get('doc_pref')] or ['nexus']
            out.append({'kind': 'subs', 'profile': rng.choice(prefp),
                        'pref': rng.choice([None, 'netconf', 'xmlagent', 'zz', 'ünï', ' netconf', 'netconf ', 'xmlagent\n', 'Netconf', '\tnetconf', 'net conf'])})
        # several SSH connects from one process to the SAME host and port, with different profiles / preferred names and servers that
        # accept different names: each connect asks for the candidates of ITS handler, in that order, up to the first accepted one
        sub_profiles = [x['name'] for x in self._profiles if len(x['subs']) > 1] or ['nexus']
        for i in range(6 if tier == 'quick' else 120):
            conns = []
            for j in range(rng.choice([2, 3])):
                conns.append({'profile': rng.choice(sub_profiles + ['default']), 'pref': rng.choice([None, None, 'netconf', 'xmlagent', 'zz']),
                              'accept_at': rng.choice([0, 0, 1, 1, 2])})
            out.append({'kind': 'subseq', 'conns': conns})
        # the caller's own argument objects: shared between connects (module-level constants in scripts), they are never changed, and a
        # manager built from them behaves the same whatever was built from them before
        profs = [x['name'] for x in self._profiles]
        for i in range(8 if tier == 'quick' else 200):
            out.append({'kind': 'argsafe', 'profiles': [rng.choice(profs) for _ in range(rng.choice([2, 3, 4]))],
                        'ignore': rng.choice([['*custom pattern*'], ['exact message'], [], ['a*', '*b']]), 'i': i})
        # user-supplied additional capabilities that merely LOOK like NETCONF base URIs: the client's list still contains a real one
        lookalikes = ['urn:acme:nms:base:1.2', 'http://example.com/yang?module=acme:base:types', 'urn:ietf:params:netconf:capability:base:1.0',
                      'urn:x:base:1.1', 'urn:ietf:params:netconf:base', 'URN:IETF:PARAMS:NETCONF:BASE:1.0', 'urn:custom:capability:1.0']
        for i, p_ in enumerate(profs):
            for j in range(2 if tier == 'quick' else 6):
                out.append({'kind': 'basecap', 'profile': p_, 'extras': rng.sample(lookalikes, rng.randint(1, 3))})
        return out

    def search(self, tier, rng, broken):
        names = [p['name'] for p in getattr(self, '_profiles', [])]
        return [gen_history(rng, names) for _ in range(300)]

    def run_impl(self, case):
        from ncclient import manager
        k = case['kind']
        if k == 'profile':
            p = next(x for x in self._profiles if x['name'] == case['name'])
            dh = manager.make_device_handler({'name': case['name']})
            doc = (type(dh).__doc__ or '')
            return {'row': {kk: p[kk] for kk in ('name', 'advertised', 'cls', 'uses', 'prefix', 'suffix', 'subs', 'subs_new', 'subs_ex', 'pref_existing', 'vendor')},
                    'obs': observe(dh), 'doc_promises_pref': 'ssh_subsystem_name' in doc}
        if k == 'iso':
            return self._iso[case['i']]
        if k == 'userhandler':
            from ncclient.devices.default import DefaultDeviceHandler
            from ncclient.operations.rpc import GenericRPC

            class MyHandler(DefaultDeviceHandler):
                def add_additional_operations(self):
                    return {'get': GenericRPC, 'my_op': GenericRPC}

                def get_capabilities(self):
                    return ['urn:ietf:params:netconf:base:1.0', 'urn:my:cap']
            params = {'handler': MyHandler}
            if case['with_name']:
                params['name'] = 'junos'
            seen = []
            for _ in range(case['reuse']):
                dh = manager.make_device_handler(params)        # the SAME dict object every time, as a module-level constant would be
                o = observe(dh)
                seen.append({'cls': type(dh).__name__, 'get': o['ops'].get('get'), 'my_op': o['ops'].get('my_op'), 'caps': o['caps']})
            return {'seen': seen, 'params_keys': sorted(params)}
        if k == 'resolve':
            from impl.rpcstub import StubSession
            dh = manager.make_device_handler({'name': case['profile']})
            m = manager.Manager(StubSession([]), dh)
            a = getattr(m, case['name'])
            import functools
            if isinstance(a, functools.partial):
                return {'cls': a.args[0].__module__ + '.' + a.args[0].__name__}
            return {'cls': None}
        if k == 'basecap':
            dh = manager.make_device_handler({'name': case['profile']})
            dh.add_additional_netconf_params({'capabilities': list(case['extras'])})
            return {'caps': [str(c) for c in dh.get_capabilities()]}
        if k == 'subseq':
            from impl import sshmock
            res = []
            for c in case['conns']:
                dp = {} if c['pref'] is None else {'ssh_subsystem_name': c['pref']}
                want = list(manager.make_device_handler(dict(dp, name=c['profile'])).get_ssh_subsystem_names())
                subs = [i == c['accept_at'] for i in range(len(want))]
                r = sshmock.run_connect({'verify': False, 'known': 'a', 'pinned': 'a', 'cb': None, 'profile': c['profile'], 'negotiates': True, 'auths': [True],
                                         'subs': subs, 'device_params': dp, 'host': 'device.example', 'port': 830})
                res.append({'asked': r['sub_names'], 'candidates': want, 'result': r['result']})
            return {'conns': res}
        if k == 'argsafe':
            import copy
            from impl.rpcstub import StubSession
            errors_params = {'ignore_errors': list(case['ignore'])}
            snap = copy.deepcopy(errors_params)
            seen = []
            for prof in case['profiles']:
                dh = manager.make_device_handler({'name': prof}, errors_params.get('ignore_errors'))
                fresh = manager.make_device_handler({'name': prof}, list(case['ignore']))
                seen.append({'profile': prof, 'exempt': [bool(dh.is_rpc_error_exempt(x)) for x in SAMPLES + case['ignore']],
                             'exempt_fresh': [bool(fresh.is_rpc_error_exempt(x)) for x in SAMPLES + case['ignore']]})
            return {'seen': seen, 'args_unchanged': errors_params == snap, 'args_now': str(errors_params)[:200]}
        if k == 'subs':
            dp = {'name': case.get('profile', 'nexus')}
            if case['pref'] is not None:
                dp['ssh_subsystem_name'] = case['pref']
            return {'subs': list(manager.make_device_handler(dp).get_ssh_subsystem_names())}
        # history
        import random
        from impl.rpcstub import StubSession
        from ncclient.xml_ import NCElement, to_ele
        watch = {n: manager.make_device_handler({'name': n}) for n in case['watch']}
        before_old = {n: observe(h) for n, h in watch.items()}
        before_new = {n: observe(manager.make_device_handler({'name': n})) for n in case['watch']}
        changed = []
        for step, (op, name, seed) in enumerate(case['ops']):
            r = random.Random(seed)
            try:
                if op == 'construct':
                    manager.make_device_handler({'name': name})
                elif op == 'construct-params':
                    dh = manager.make_device_handler({'name': name, 'ssh_subsystem_name': 'p%d' % r.randint(0, 9), 'config_mode': 'private'},
                                                     ['*ignored %d*' % r.randint(0, 9), 'exact'])
                    dh.add_additional_netconf_params({'capabilities': ['urn:extra:%d' % r.randint(0, 9)]})
                    observe(dh)
                elif op == 'mutate':
                    dh = watch.get(name) if (name in watch and r.random() < 0.0) else manager.make_device_handler({'name': name})
                    dh.get_capabilities().append('urn:mutated')
                    dh.get_xml_base_namespace_dict()['mut'] = 'urn:mutated'
                    (dh.get_xml_extra_prefix_kwargs().get('nsmap') if dh.get_xml_extra_prefix_kwargs() else {} or {}).update({'mut': 'urn:mutated'}) \
                        if isinstance(dh.get_xml_extra_prefix_kwargs().get('nsmap'), dict) else None
                    dh.get_ssh_subsystem_names().append('mutated')
                    dh.add_additional_operations()['mutated'] = object
                elif op == 'manager':
                    dh = manager.make_device_handler({'name': name})
                    m = manager.Manager(StubSession([]), dh)
                    m._vendor_operations['get'] = object
                elif op == 'inspect':
                    # looking at a manager (tab completion, logging, feature tests) is not using it
                    m = manager.Manager(StubSession([]), manager.make_device_handler({'name': name}))
                    dir(m), repr(m), str(m), hasattr(m, 'no_such_operation'), hasattr(m, 'commit'), sorted(vars(m))
                    for attr in ('available_operations', 'operations'):
                        f = getattr(type(m), attr, None)
                        if callable(f):
                            f(m)
                elif op == 'xpath':
                    class R:
                        _root = to_ele('<a xmlns="urn:a"><b>1</b></a>')

                        def __str__(self):
                            return '<a xmlns="urn:a"><b>1</b></a>'
                    NCElement(R(), manager.make_device_handler({'name': 'junos'}).transform_reply()).xpath('//b', namespaces={'p%d' % r.randint(0, 5): 'urn:q'})
                elif op == 'exempt':
                    dh = manager.make_device_handler({'name': name}, ['*foo %d*' % r.randint(0, 5)])
                    dh.is_rpc_error_exempt('x foo 1 y')
            except Exception as e:
                changed.append([step, op, name, 'exception:' + type(e).__name__])
                continue
            for n, h in watch.items():
                if observe(h) != before_old[n]:
                    changed.append([step, op, name, 'old:' + n])
                if observe(manager.make_device_handler({'name': n})) != before_new[n]:
                    changed.append([step, op, name, 'fresh:' + n])
            if changed:
                break
        from ncclient import xml_
        return {'changed': changed, 'xpath_ns': sorted(xml_.XPATH_NAMESPACES)}

    def model_lines(self, case):
        k = case['kind']
        if k == 'resolve':
            p = next(x for x in self._profiles if x['name'] == case['profile'])
            pairs = lambda kv: hlist('%s=%s' % (hexs(a), hexs(b)) for a, b in kv)
            return ['iso resolve %s %s %s' % (pairs(p['vendor']), pairs(self._std), hexs(case['name']))]
        if k == 'subs':
            base = next((x['subs'] for x in self._profiles if x['name'] == case.get('profile', 'nexus')), ['netconf', 'xmlagent'])
            return ['iso subs %s %s' % (hlist(hexs(x) for x in base), '-' if case['pref'] is None else hexs(case['pref']))]
        return []

    def model_obs(self, case, outs):
        k = case['kind']
        if k == 'resolve':
            return {'cls': None if outs[0] == 'none' else unhexs(outs[0])}
        if k == 'subs':
            return {'subs': [unhexs(x) for x in unhlist(outs[0])]}
        return None

    def oracle(self, case, io):
        k = case['kind']
        if k == 'subseq':
            for n, (c, r) in enumerate(zip(case['conns'], io['conns'])):
                want = r['candidates'][:c['accept_at'] + 1]
                if r['asked'] != want:
                    return ('C16:subsystem-requests-depend-on-earlier-connect', 'connect #%d (%s, preferred %r) to the same host:port asked the server for %s; its own handler\'s '
                            'candidates are %s (accepted at position %d); earlier connects: %s' % (n + 1, c['profile'], c['pref'], r['asked'], r['candidates'], c['accept_at'], case['conns'][:n]))
            return None
        if k == 'basecap':
            if not (set(io['caps']) & BASE_URIS):
                return ('C16:no-base-capability@' + case['profile'], 'with the additional capabilities %s the client capability list of %s contains no NETCONF base URI: %s' % (
                    case['extras'], case['profile'], io['caps'][:6]))
            return None
        if k == 'argsafe':
            if not io['args_unchanged']:
                return ('C16:caller-arguments-changed', 'errors_params handed to %s was changed by the library: now %s (given ignore_errors=%s)' % (case['profiles'], io['args_now'], case['ignore']))
            for s_ in io['seen']:
                if s_['exempt'] != s_['exempt_fresh']:
                    return ('C16:interference:shared-arguments', 'a %s handler built from an errors_params object used for %s before exempts different errors than one built from a fresh copy' % (
                        s_['profile'], case['profiles']))
            return None
        if k == 'subs':
            lst = io['subs']
            n = case.get('profile', 'nexus')
            if len(lst) != len(set(lst)):
                return ('C16:duplicate-subsystems@' + n, 'preferred name %r: subsystem candidates %s contain a duplicate' % (case['pref'], lst))
            if case['pref'] is not None and lst[:1] != [case['pref']]:
                return ('C16:subsystem-preference-ignored@' + n, 'preferred name %r is not the first candidate: %s' % (case['pref'], lst))
            return None
        if k == 'profile':
            r, o = io['row'], io['obs']
            n = r['name']
            want_cls = 'ncclient.devices.%s.%sDeviceHandler' % (n, n.capitalize())
            if r['cls'] != want_cls:
                return ('C16:wrong-class@' + n, 'device name %s yields %s' % (n, r['cls']))
            if (n in DOCUMENTED) != r['advertised']:
                return ('C16:advertised-names@' + n, 'device %s advertised=%s, documented=%s' % (n, r['advertised'], n in DOCUMENTED))
            if not (set(o['caps']) & BASE_URIS):
                return ('C16:no-base-capability@' + n, 'capabilities of %s contain no base URI' % n)
            for lst, what in ((r['subs'], 'default'), (r['subs_new'], 'new preferred'), (r['subs_ex'], 'existing preferred')):
                if len(lst) != len(set(lst)):
                    return ('C16:duplicate-subsystems@' + n, '%s subsystem list of %s has duplicates: %s' % (what, n, lst))
            if io['doc_promises_pref'] and (r['subs_new'][0] != 'zz-preferred' or r['subs_ex'][0] != r['pref_existing']):
                return ('C16:subsystem-preference-ignored@' + n,
                        'the %s handler documents the ssh_subsystem_name preference but get_ssh_subsystem_names() returns %s' % (n, r['subs_new']))
            from ncclient import manager
            for name, cls in r['vendor']:
                if o['ops'].get(name) != cls:
                    return ('C16:vendor-op-shadowed@' + n, 'vendor operation %s of %s resolves to %s' % (name, n, o['ops'].get(name)))
            for name, cls in self._std:
                if name not in dict(r['vendor']) and o['ops'].get(name) != cls:
                    return ('C16:standard-op-missing@' + n, 'standard operation %s through %s resolves to %s' % (name, n, o['ops'].get(name)))
            return None
        if k == 'userhandler':
            first = io['seen'][0]
            if first['cls'] != 'MyHandler' or not str(first['get']).endswith('GenericRPC') or first['my_op'] is None:
                return ('C16:user-handler-ignored', 'a user handler class did not yield its profile: %r' % first)
            for i, s_ in enumerate(io['seen'][1:], 2):
                if s_ != first:
                    return ('C16:user-handler-lost-on-reuse', 'construction #%d from the same device_params yields %s instead of the user handler\'s profile' % (i, s_['cls']))
            if 'handler' not in io['params_keys']:
                return ('C16:device-params-mutated', 'make_device_handler removed "handler" from the caller\'s device_params')
            return None
        if k == 'iso':
            if io['writes'] or io['error']:
                return ('C16:shared-state-write:' + io['label'].split(':')[0], '%s writes shared containers %s (error %s)' % (io['label'], io['writes'][:4], io['error']))
            return None
        if k == 'history':
            if io['changed']:
                step, op, name, what = io['changed'][0]
                return ('C16:interference:%s' % op, 'operation %s(%s) changed what is observed through %s' % (op, name, what))
            if io['xpath_ns'] != ['re']:
                return ('C16:interference:xpath', 'module-level XPATH_NAMESPACES now has prefixes %s' % io['xpath_ns'])
            return None
        return None

    def nontrivial(self, case, io):
        return case['kind'] in ('profile', 'history', 'iso', 'userhandler', 'subseq', 'argsafe', 'basecap')

    def extra_coverage(self):
        return {'gen_tables': {'Gen/Profiles.lean': len(getattr(self, '_profiles', [])), 'Gen/Isolation.lean': len(getattr(self, '_iso', []))}}


CHECK = C16
