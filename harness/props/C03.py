"""C03 — each request receives exactly its own reply (lock-step histories + real-socket sessions)."""
from props._session import SessionCheck, rpc_states, msg_id_of
from core import unhexs
from impl.session_run import msg_id


class C03(SessionCheck):
    ID = 'C03'
    PROPS_MODULE = 'NcVerif.Props.C03'
    FLAVOR_WEIGHTS = {'normal': 5, 'odd': 2, 'fault': 1, 'late-ready': 1, 'close': 1}
    RULE = ('lock-step histories on the real Session/RPC/RPCReplyListener objects over the three transports and 14 profiles: '
            '1-6 pipelined asynchronous requests, replies in random order (qualified / unqualified / prefixed rpc-reply), '
            'interleaved notifications and unknown messages, duplicate / unknown / missing message-ids (odd flavour), short writes, '
            'arbitrary read segmentation; every step compared with the Lean model; socket sessions with 2-5 client threads, a first-request race, an application that re-seeds the global RNG before every request, two sessions in one process of which one ends while the other has requests outstanding, and 1100+ requests outstanding at once on one session. Stray replies (no id / unknown id / duplicate) with exactly one request outstanding; four threads behind a slow user device handler. Non-trivial = history of >= 8 commands; distinct by case.')

    def e2e_cases(self, rng, tier):
        from cases import session_gen as SG
        n = 6 if tier == 'quick' else 80
        out = []
        for i in range(n):
            out.append({'kind': 'e2e', 'sc': {'transport': ['unix', 'ssh', 'unix', 'tls'][i % 4] if (tier == 'thorough' or i % 4 != 3) else 'unix',
                                              'profile': SG.PROFILES[(i * 5) % len(SG.PROFILES)], 'threads': rng.randint(2, 5),
                                              'per_thread': rng.randint(2, 5), 'window': rng.randint(1, 5), 'notifs': rng.choice([0, 0, 3]),
                                              'seg': rng.choice(['random', 'whole', 'ones']), 'seed': rng.randrange(1 << 30)}})
        for i in range(3 if tier == 'quick' else 30):
            out.append({'kind': 'e2e', 'sc': {'transport': ['unix', 'ssh', 'tls'][i % 3] if tier == 'thorough' else 'unix', 'profile': 'default',
                                              'threads': 3, 'per_thread': 1, 'window': 1, 'notifs': 0, 'seg': 'whole', 'first_race': True,
                                              'seed': rng.randrange(1 << 30)}})
        for i in range(2 if tier == 'quick' else 12):
            out.append({'kind': 'e2e', 'sc': {'transport': 'unix', 'profile': 'default', 'threads': 2 + i % 2, 'per_thread': 3, 'window': 3, 'notifs': 0,
                                              'seg': 'whole', 'reseed': 20240607 + i, 'seed': rng.randrange(1 << 30)}})
        for i in range(2 if tier == 'quick' else 12):
            # payloads that are themselves complete <rpc message-id="101"> elements (pasted from documentation), several outstanding
            out.append({'kind': 'e2e', 'sc': {'transport': 'unix', 'profile': ['default', 'junos'][i % 2], 'threads': 3, 'per_thread': 2, 'window': 4, 'notifs': 0,
                                              'seg': 'whole', 'pasted': True, 'seed': rng.randrange(1 << 30)}})
        for i in range(2 if tier == 'quick' else 10):
            # several threads on one session whose device handler (a user class) is slow in its hooks
            out.append({'kind': 'e2e', 'sc': {'transport': 'unix', 'profile': 'default', 'threads': 4, 'per_thread': 3, 'window': 2, 'notifs': 0,
                                              'seg': 'whole', 'slow_handler': True, 'seed': rng.randrange(1 << 30)}})
        # two sessions alive in one process: one ENDS (close_session / EOF from its server / local close) while the other has requests
        # outstanding whose replies arrive afterwards
        ends = ['close_session', 'server-eof', 'local-close']
        for i in range(3 if tier == 'quick' else 18):
            out.append({'kind': 'two', 'sc': {'end': ends[i % 3], 'held': 1 + i % 3, 'profile': ['default', 'junos', 'nexus'][(i // 3) % 3],
                                              'transport_a': ['unix', 'ssh', 'tls'][(i // 3) % 3] if tier == 'thorough' else 'unix', 'transport_b': 'unix'}})
        # exactly ONE request outstanding when an <rpc-reply> arrives that is not its answer (no id / an id nobody used / a second copy of
        # an earlier reply): it may fail the request or the session, never complete it
        for i, st in enumerate(['no-id', 'unknown-id', 'duplicate']):
            out.append({'kind': 'stray', 'sc': {'stray': st, 'transport': 'unix', 'profile': ['default', 'junos', 'iosxe'][i % 3],
                                                'server_caps': None}})
        # MANY requests outstanding at the same time on one session (beyond any table size a tidy-up might assume), some never answered
        sizes = [(1100, 0, 'fifo'), (1300, 1100, 'shuffled')] if tier == 'quick' else [(1100, 0, 'fifo'), (2500, 0, 'lifo'), (4200, 4000, 'shuffled'), (70000, 0, 'fifo')]
        for n, stale, order in sizes:
            out.append({'kind': 'many', 'sc': {'n': n, 'stale': stale, 'order': order, 'seed': rng.randrange(1 << 30)}})
        return out

    def run_impl(self, case):
        if case.get('kind') == 'two':
            from impl.e2e import run_two
            return run_two(case['sc'])
        if case.get('kind') == 'many':
            from impl.e2e import run_many
            return run_many(case['sc'])
        if case.get('kind') == 'stray':
            from impl.e2e import run_stray
            return run_stray(case['sc'])
        return super().run_impl(case)

    def nontrivial(self, case, io):
        return True if case.get('kind') in ('two', 'many', 'stray') else super().nontrivial(case, io)

    def shrink(self, case, still_fails):
        return case if case.get('kind') in ('two', 'many', 'stray') else super().shrink(case, still_fails)

    def model_lines(self, case):
        return [] if case.get('kind') in ('two', 'many', 'stray') else super().model_lines(case)

    def compare(self, case, io, mo):
        return None if case.get('kind') in ('two', 'many', 'stray') else super().compare(case, io, mo)

    def oracle_e2e(self, case, io):
        if io.get('connect') != 'ok':
            return ('C03:e2e-connect', 'connect failed: %s' % io.get('connect'))
        for c in io['calls']:
            if c['out'][0] != 'reply':
                return ('C03:request-failed', 'request %s raised %s although the server answered every request' % (c['tag'], c['out'][1]))
            if c['out'][2] != c['tag'] or io['server_saw'].get(c['tag']) != c['out'][1]:
                return ('C03:foreign-reply', 'thread request %s got the reply for %s' % (c['tag'], c['out'][2]))
        ids = io['server_ids']
        if len(ids) != len(set(ids)):
            return ('C03:duplicate-message-id', 'two requests went out with the same message-id')
        if io.get('hung_threads'):
            return ('C03:hung', 'a client thread never returned')
        return None

    def oracle(self, case, io):
        if case.get('kind') == 'e2e':
            return self.oracle_e2e(case, io)
        if case.get('kind') == 'two':
            sc = case['sc']
            if io.get('connect') != 'ok':
                return ('C03:e2e-connect', 'connect failed: %s' % io.get('connect'))
            want = [['reply', 'B%d' % i] for i in range(sc['held'])]
            if io['b_out'] != want or any(x != 'pending' for x in io['b_before']):
                return ('C03:other-session-disturbed', 'session A ended (%s) while session B had %d requests outstanding: B\'s requests were %s before their '
                        'replies arrived (errors %s) and ended as %s' % (sc['end'], sc['held'], io['b_before'], io['b_errors_before'], io['b_out']))
            if not io['b_connected'] or io['b_after'] != 'ok':
                return ('C03:other-session-disturbed', 'session B was no longer usable after session A ended (%s): connected=%s, next request: %s' % (
                    sc['end'], io['b_connected'], io['b_after']))
            return None
        if case.get('kind') == 'stray':
            if io.get('connect') != 'ok':
                return ('C03:e2e-connect', 'connect failed: %s' % io.get('connect'))
            sec = io.get('second') or ['none']
            if sec[0] == 'reply' and (sec[1] != io.get('own_id') or not sec[2]):
                return ('C03:foreign-reply', 'with one request outstanding the server sent an <rpc-reply> that is not its answer (%s); the request completed with '
                        'that reply (message-id %r, own id %r)' % (case['sc']['stray'], sec[1], io.get('own_id')))
            return None
        if case.get('kind') == 'many':
            sc = case['sc']
            if io['distinct_ids'] != sc['n']:
                return ('C03:duplicate-message-id', '%d requests carried only %d distinct message-ids' % (sc['n'], io['distinct_ids']))
            if io['n_wrong'] or io['listener_errors']:
                return ('C03:reply-not-delivered-among-many', '%d requests outstanding at once (%d of them never answered): %d answered requests did not '
                        'complete with their own reply (e.g. %s; listener errors %s)' % (sc['n'], sc['stale'], io['n_wrong'], io['wrong'], io['listener_errors']))
            return None
        seen = {}
        for step, o in enumerate(io['obs']):
            for i, st in rpc_states(o).items():
                if st.startswith('R'):
                    raw = unhexs(st[1:])
                    if msg_id_of(raw) != msg_id(i):
                        return ('C03:foreign-reply', 'request %d completed with a reply carrying message-id %r' % (i, msg_id_of(raw)))
                    if i in seen and seen[i] != raw:
                        return ('C03:second-reply', 'request %d was handed a second, different reply' % i)
                    seen[i] = raw
                elif i in seen and not st.startswith('R'):
                    return ('C03:reply-lost', 'request %d lost its reply' % i)
        info = case.get('info') or {}
        if case['flavor'] in ('normal', 'late-ready') and not info.get('faults') and info.get('finished') and io['conn_result'] == 'ok':
            for o in io['obs']:
                if o['pc'] == 'stopped' or not o['connected'] or any(st.startswith('E') for st in rpc_states(o).values()):
                    return ('C03:non-reply-disturbed@' + case['profile'],
                            'only well-formed replies and notifications arrived, yet the session stopped or a request failed')
        # message-ids on the wire are unique
        from props._session import client_frames
        last = io['obs'][-1] if io['obs'] else None
        if last:
            hello, payloads, _ = client_frames(last['wire'], last['base11'])
            ids = [msg_id_of(p.decode('utf-8', 'replace')) for p in payloads]
            ids = [x for x in ids if x]
            if len(ids) != len(set(ids)):
                return ('C03:duplicate-message-id', 'two requests went out with the same message-id')
        return None


CHECK = C03
