"""Shared pieces of the framing checks (C01, C14): model protocol + observation canonicalisation."""
from core import hexb, hlist, unhexs, unhlist


def feed_line(case):
    return 'fr feed %d %s' % (1 if case['base11'] else 0, hlist('b' + s for s in case['segs']))


def parse_feed_out(line):
    outs_t, counts_t = line.split(' ')
    delivered, err = [], None
    for t in unhlist(outs_t):
        if t.startswith('d'):
            delivered.append(unhexs(t[1:]))
        elif t == 'rF':
            err = 'FramingError'
        elif t == 'rD':
            err = 'DecodeError'
    return {'delivered': delivered, 'counts': [int(x) for x in unhlist(counts_t)], 'error': err}


def run_feed_impl(case):
    from impl.framing import feed_parser
    return feed_parser(case['base11'], [bytes.fromhex(s) for s in case['segs']])


def stream_of(case):
    return b''.join(bytes.fromhex(s) for s in case['segs'])


def per_step_expected(case):
    """Expected delivered count after each segment (reference decoder on each prefix)."""
    from oracle.framing_spec import expected
    out = []
    pre = b''
    for s in case['segs']:
        pre += bytes.fromhex(s)
        d, e = expected(case['base11'], pre)
        out.append((len(d), e))
    return out
