"""C15 — peer authentication precedes credentials and NETCONF traffic."""
import itertools

from core import Check

OVERRIDING = ('iosxe', 'iosxr', 'csr')       # profiles that install an accept-all unknown-host callback


def bits(l):
    return ''.join('1' if b else '0' for b in l) or '_'


class C15(Check):
    ID = 'C15'
    PROPS_MODULE = 'NcVerif.Props.C15'
    EXHAUSTIVE = True
    RULE = ('the WHOLE finite SSH configuration table - hostkey_verify 2 x known_hosts {absent, under host, under [host]:port, different key} x '
            'pinned key {absent, matching, different} x callback verdict 2 x profile {default, junos, iosxe, iosxr, csr} x credentials '
            '{right password, wrong password, key file then password (fail, ok), all fail, none} x subsystem acceptance, and a slice of it again with an OpenSSH configuration file (StrictHostKeyChecking no / accept-new / off, ...) - run through the REAL '
            'manager.connect_ssh / SSHSession.connect / _auth with real paramiko keys and a real known_hosts file against a recording '
            'transport; plus real TLS handshakes on loopback: right CA, wrong CA, wrong host name, peer named by an IPv4 / IPv6 literal, a certificate of the right CA issued to another device, host-name check off. '
            'Callbacks that decide by fingerprint and host; known_hosts listing the key under the peer ADDRESS only (real TCP loopback) or in a negated wildcard line; protocol constants x name mismatch with checking on against a TLS server that keeps accepting. Non-trivial = verification on or authentication attempted; distinct by configuration.')
    TRUST = ['paramiko key comparison / HostKeys.check and OpenSSL certificate validation are the environment (exercised for real, not modelled)']

    def cases(self, rng, tier):
        out = []
        creds = [[True], [False], [False, True], [False, False], []]
        # known_hosts 'i': the server's key is listed under the ADDRESS the connection happens to reach (and [address]:port), not under the
        # host the caller named - for the verification that is a host without an entry
        for verify, known, pinned, cb, profile, auths in itertools.product((True, False), 'ahpdiw', 'amd', (True, False),
                                                                           ('default', 'junos', 'iosxe', 'iosxr', 'csr'), creds):
            for subs in ([True], [False]) if (profile == 'default' and auths == [True]) else ([True],):
                out.append({'kind': 'ssh', 'verify': verify, 'known': known, 'pinned': pinned, 'cb': cb, 'profile': profile, 'negotiates': True,
                            'auths': auths, 'subs': subs, 'authx': len(out) % 3})
        # the same decisions with an OpenSSH configuration file given (ssh_config=...), whose options must not weaken the verification
        CFG = [['StrictHostKeyChecking no'], ['StrictHostKeyChecking accept-new'], ['StrictHostKeyChecking off', 'CheckHostIP no'],
               ['StrictHostKeyChecking yes'], ['UpdateHostKeys yes', 'HashKnownHosts yes'], ['VerifyHostKeyDNS yes', 'StrictHostKeyChecking ask'],
               ['NoHostAuthenticationForLocalhost yes'], ['User u', 'ServerAliveInterval 10'], ['HostKeyAlias lab-gateway'], ['HostKeyAlias lab-gateway', 'CheckHostIP no']]
        k = 0
        for known, pinned, cb, cfg in itertools.product('ahpdk', 'amd', (True, False), CFG):
            k += 1
            out.append({'kind': 'ssh', 'verify': True, 'known': known, 'pinned': pinned, 'cb': cb, 'profile': 'default', 'negotiates': True,
                        'auths': [True] if k % 4 else [False], 'subs': [True], 'sshcfg': cfg, 'sshcfg_host': ['*', 'device.example', 'device.*'][k % 3]})
        # a connection handed over as a socket with host=None (documented for sock_fd): the pinned key and the callback still decide
        for pinned, cb in itertools.product('amd', (True, False, None)):
            out.append({'kind': 'ssh', 'verify': True, 'known': 'a', 'pinned': pinned, 'cb': cb, 'profile': 'default', 'negotiates': True,
                        'auths': [True], 'subs': [True], 'nohost': True})
        out.append({'kind': 'ssh', 'verify': True, 'known': 'h', 'pinned': 'a', 'cb': False, 'profile': 'default', 'negotiates': False,
                    'auths': [True], 'subs': [True]})
        out.append({'kind': 'ssh', 'verify': True, 'known': 'a', 'pinned': 'a', 'cb': True, 'profile': 'nexus', 'negotiates': True,
                    'auths': [True], 'subs': [False, True]})
        # histories: several connects in one process sharing one known_hosts file (same host on different ports, different server
        # keys): every connect must be decided as it would be alone (no state carried from one connection to the next)
        host = 'device.example'
        for i in range(60 if tier == 'quick' else 1500):
            keysn = ['server', 'other', 'third']
            ports = [830, 2022, 2023]
            entries = []
            if rng.random() < 0.8:
                entries.append([host, rng.choice(keysn)])
            for p in ports[1:]:
                if rng.random() < 0.6:
                    entries.append(['[%s]:%d' % (host, p), rng.choice(keysn)])
            connects = []
            for _ in range(rng.randint(2, 4)):
                port, sk = rng.choice(ports), rng.choice(keysn)
                ek = dict((pat, kn) for pat, kn in entries)
                under_host, under_port = ek.get(host), ek.get('[%s]:%d' % (host, port))
                known = 'h' if under_host == sk else ('p' if under_port == sk else ('d' if (under_host or under_port) else 'a'))
                # profiles mix within one process (some install an accept-all callback for THEIR connection only); the caller passes an
                # accepting / a refusing callback or none at all
                connects.append({'kind': 'ssh', 'verify': True, 'known': known, 'pinned': rng.choice('aaaamd'), 'cb': rng.choice([True, False, False, None, None]),
                                 'profile': rng.choice(['default', 'default', 'junos', 'nexus', 'iosxe', 'iosxr', 'csr']), 'negotiates': True,
                                 'auths': rng.choice([[True], [True], [False]]), 'subs': [True], 'authx': rng.randrange(3),
                                 'host': host, 'port': port, 'server_key': sk})
            out.append({'kind': 'sshseq', 'entries': entries, 'connects': connects})
        for t in ('right-ca', 'wrong-ca', 'wrong-hostname', 'wrong-hostname-unchecked', 'no-ca-but-system-store',
                  # the peer is named by an IP literal (as `host`, or as `server_hostname`): the certificate must match that address
                  'other-device-cert', 'other-device-cert-unchecked', 'wrong-ip', 'wrong-ip6', 'wrong-ip-unchecked'):
            out.append({'kind': 'tls', 'trust': t})
        # the documented protocol constants x host-name checking on/off, against a server whose certificate chains to ANOTHER CA
        for proto in ('PROTOCOL_TLS_CLIENT', 'PROTOCOL_TLS', 'PROTOCOL_TLSv1_2'):
            for chk in (True, False):
                out.append({'kind': 'tls', 'trust': 'wrong-ca', 'protocol': proto, 'check_hostname': chk})
                out.append({'kind': 'tls', 'trust': 'right-ca', 'protocol': proto, 'check_hostname': chk})
            # ... and, with checking ON, against certificates of the right CA issued to another name / another device
            for t in ('wrong-hostname', 'other-device-cert', 'wrong-ip'):
                out.append({'kind': 'tls', 'trust': t, 'protocol': proto, 'check_hostname': True})
        return out

    def run_impl(self, case):
        if case['kind'] == 'ssh':
            from impl.sshmock import run_connect
            return run_connect(case)
        if case['kind'] == 'sshseq':
            from impl.sshmock import run_sequence
            return run_sequence(case)
        from impl import e2e
        import os
        sc = {'transport': 'tls', 'profile': 'default'}
        if 'protocol' in case:
            sc['protocol'] = case['protocol']
            sc['check_hostname'] = case['check_hostname']
        if case['trust'] == 'wrong-ca':
            sc['ca_certs'] = e2e.pki()['otherca']
        env_old = os.environ.get('SSL_CERT_FILE')
        if case['trust'] == 'no-ca-but-system-store':
            # the caller names NO CA; the machine's default trust store (here: pointed at the harness CA) must not stand in for it
            sc['ca_certs'] = False
            os.environ['SSL_CERT_FILE'] = e2e.pki()['ca']
        if case['trust'].startswith('wrong-hostname'):
            sc['server_hostname'] = 'not-the-server.example'
            sc['check_hostname'] = case['trust'] == 'wrong-hostname'
        if case['trust'].startswith('wrong-ip'):
            sc['server_hostname'] = '2001:db8::1' if 'ip6' in case['trust'] else '10.1.2.3'
            sc['check_hostname'] = not case['trust'].endswith('unchecked')
        if case['trust'].startswith('other-device-cert'):
            sc['other_device_cert'] = True      # chains to the right CA, but was issued to another name and address; host = '127.0.0.1'
            sc['check_hostname'] = not case['trust'].endswith('unchecked')
        srv = e2e.make_server(sc, None)
        try:
            try:
                m = e2e.connect(srv, sc, timeout=3)
                res = 'connected'
                try:
                    m.close_session()
                except Exception:
                    pass
            except Exception as e:
                res = 'exc:' + e2e.exc_name(e)
            srv.done.wait(2)
            return {'result': res, 'handshake_ok': srv.handshake_ok, 'netconf_bytes_received': len(srv.rx) if srv.handshake_ok else 0,
                    'client_hello_seen': srv.client_hello is not None}
        finally:
            srv.cleanup()
            if env_old is None:
                os.environ.pop('SSL_CERT_FILE', None)
            else:
                os.environ['SSL_CERT_FILE'] = env_old

    def _line(self, case):
        cb = True if case['profile'] in OVERRIDING else bool(case['cb'])
        return 'cn ssh %d %s %s %d %d %s %s' % (case['verify'], 'a' if case['known'] in 'iwk' else case['known'], case['pinned'], cb, case['negotiates'], bits(case['auths']), bits(case['subs']))

    def model_lines(self, case):
        if case['kind'] == 'sshseq':
            return [self._line(c) for c in case['connects']]
        if case['kind'] != 'ssh':
            return []
        return [self._line(case)]

    def model_obs(self, case, outs):
        def one(o):
            t, r = o.split(' ')
            return {'trace': [] if t == '_' else t.split(','), 'result': r}
        if case['kind'] == 'sshseq':
            return {'results': [one(o) for o in outs]}
        if case['kind'] != 'ssh':
            return None
        return one(outs[0])

    def compare(self, case, io, mo):
        if mo is None:
            return None
        if case['kind'] == 'sshseq':
            for k, (c, i, m) in enumerate(zip(case['connects'], io['results'], mo['results'])):
                d = self.compare(c, i, m)
                if d:
                    return 'connect %d of the history: %s' % (k + 1, d)
            return None
        a, b = list(io['trace']), list(mo['trace'])
        # the key comparison is internal (no call on the transport) and profile-installed callbacks cannot be logged
        b = [e for e in b if not e.startswith('check:')]
        if case['profile'] in OVERRIDING or case['cb'] is None:
            b = [e for e in b if not e.startswith('callback:')]      # the library's own default callback cannot be logged
        if a != b or io['result'] != mo['result']:
            return 'impl=%r/%s model=%r/%s' % (a, io['result'], b, mo['result'])
        return None

    def oracle(self, case, io):
        if case['kind'] == 'sshseq':
            for k, (c, i) in enumerate(zip(case['connects'], io['results'])):
                r = self.oracle(c, i)
                if r:
                    return (r[0] + '@history', 'connect %d of %d in one process (known_hosts %s; host key %s on port %d): %s' % (
                        k + 1, len(case['connects']), case['entries'], c['server_key'], c['port'], r[1]))
            return None
        if case['kind'] == 'tls':
            t = case['trust']
            if t in ('right-ca', 'wrong-hostname-unchecked', 'wrong-ip-unchecked', 'other-device-cert-unchecked'):
                if io['result'] != 'connected':
                    return ('C15:tls-valid-rejected:' + t, 'connect with a valid chain gave %s' % io['result'])
                return None
            if not io['result'].startswith('exc:TransportError:TLSError'):
                return ('C15:tls-accepted-bad-peer:%s/%s/%s' % (t, case.get('protocol', 'PROTOCOL_TLS_CLIENT'), case.get('check_hostname', True)),
                        'connect gave %s for %s' % (io['result'], t))
            if io['netconf_bytes_received'] or io['client_hello_seen']:
                return ('C15:tls-hello-before-verification:' + t, 'NETCONF bytes were written although the certificate check failed')
            return None
        tr = io['trace']
        auth_offered = any(e.startswith('auth:') for e in tr)
        netconf = any(e == 'hello' or e.startswith('subsystem') or e == 'open' for e in tr)
        cb = True if case['profile'] in OVERRIDING else bool(case['cb'])
        if case['pinned'] == 'm':
            accepted = True
        elif case['pinned'] == 'd':
            accepted = cb
        else:
            accepted = case['known'] in 'hp' or cb
        key = '%s/%s/%s/%s' % (case['profile'], case['known'], case['pinned'], 'cb' if cb else 'nocb')
        if case['verify'] and case['negotiates']:
            if not accepted:
                if io['result'] != 'unknownHost':
                    return ('C15:unknown-host-accepted@' + key, 'server key not acceptable, yet connect gave %s' % io['result'])
                if auth_offered or netconf:
                    return ('C15:credential-before-verification@' + key, 'credentials / NETCONF traffic with an unverified host key: %s' % tr)
            elif io['result'] == 'unknownHost':
                return ('C15:known-host-rejected@' + key, 'acceptable server key rejected')
        if io['result'] != 'unknownHost' and case['negotiates'] and not any(case['auths']):
            if io['result'] != 'authenticationError':
                return ('C15:auth-failure-not-raised@' + key, 'all credentials failed, connect gave %s' % io['result'])
            if netconf:
                return ('C15:netconf-after-auth-failure@' + key, 'NETCONF traffic after failed authentication: %s' % tr)
        if case['negotiates'] and (accepted or not case['verify']) and any(case['auths']) and any(case['subs']) and io['result'] != 'connected':
            return ('C15:valid-peer-rejected@' + key, 'acceptable host key and valid credentials, yet connect gave %s' % io['result'])
        if 'hello' in tr and not any(e.startswith('auth:') and e.endswith(':1') for e in tr):
            return ('C15:netconf-without-auth@' + key, 'hello without a successful authentication: %s' % tr)
        return None

    def nontrivial(self, case, io):
        return case['kind'] in ('tls', 'sshseq') or case['verify'] or bool(case['auths'])


CHECK = C15
