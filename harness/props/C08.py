"""C08 — capability lookup semantics and totality (ncclient/capabilities.py)."""
import re

from core import Check, hexs, hlist, unhexs, unhlist

PFX = ['urn:ietf:params:netconf:', 'urn:ietf:params:xml:ns:netconf:']
SPEC_CAP = re.compile(r'^urn:ietf:params:(?:xml:ns:)?netconf:capability:([^:]*):([^:]*)(?::.*)?$', re.S)
SPEC_BASE = re.compile(r'^urn:ietf:params:(?:xml:ns:)?netconf:base:([^:]*)(?::.*)?$', re.S)


def spec_abbrev(uri):
    """Grammar-based specification, written from the RFC URN shapes, not from the code."""
    ns = uri.split('?')[0]
    m = SPEC_CAP.match(ns)
    if m:
        return {':' + m.group(1), ':' + m.group(1) + ':' + m.group(2)}
    m = SPEC_BASE.match(ns)
    if m:
        return {':base', ':base:' + m.group(1)}
    return set()


def spec_params(uri):
    parts = uri.split('?')
    if len(parts) < 2:
        return {}
    d = {}
    for piece in parts[1].split('&'):
        kv = piece.split('=')
        if len(kv) == 2:
            d[kv[0]] = kv[1]
    return d


NAMES = ['candidate', 'confirmed-commit', 'validate', 'url', 'xpath', 'startup', 'writable-running',
         'rollback-on-error', 'notification', 'interleave', 'with-defaults', 'x', '', 'base', 'capability', 'Ünï']
VERS = ['1.0', '1.1', '2', '', '1.0:extra', 'v']
PARAMS = ['', '?scheme=http,ftp,file', '?basic-mode=explicit&also-supported=report-all,trim', '?k', '?k=v=w', '?', '?&&',
          '?a=1&a=2', '?a=1?b=2', '?module=m&revision=2020-01-01', '?=', '?k=', '?=v',
          # a malformed item FOLLOWED by well-formed ones (each item stands alone)
          '?flag&b=2', '?a=1&&b=2', '?k=v=w&c=3', '?&x=1', '?basic-mode=explicit&&also-supported=report-all,trim', '?=&z=26']
LOOKALIKE = ['urn:ietf:params:foo:netconf:capability:a:b', 'http://example.com/netconf:base:1.0',
             'urn:ietf:params:xml:ns:yang:ietf-netconf-monitoring', 'urn:ietf:params:netconfx:capability:c:1.0',
             'urn:ietf:paramsX:netconf:capability:c:1.0', 'urn:ietf:params:xml:netconf:capability:c:1.0:d:e:f',
             'urn:ietf:params:netconf:foo:base:1.0', 'urn:ietf:params:xml:ns:netconf:xx:capability:q:1.0', 'urn:ietf:params',
             'urn:ietf:params:netconf:', ':netconf:', '', ':', 'urn:ietf:params:xml:ns:netconf:base', 'urn:ietf:params:netconf:base:',
             'urn:ietf:params:netconf:capability:base:1.0', 'urn:ietf:params:netconf:base:1.0:capability:zz:9',
             'http://tail-f.com/ns/netconf/actions/1.0', 'urn:ietf:params:xml:ns:netconf:base:1.0:capability:',
             'urn:ietf:params:netconf:capability:', 'urn:ietf:params:xml:ns:netconf:capability:w',
             'urn:ietf:params:xml:ns:netconf:notification:1.0', 'urn:ietf:params:xml:ns:netconf:notification:1.0?module=notifications&revision=2008-07-14',
             'urn:ietf:params:xml:ns:netconf:partial-lock:1.0', 'urn:ietf:params:netconf:monitoring', 'urn:ietf:params:netconf:candidate:1.0',
             'urn:ietf:params:xml:ns:netconf:capability:foo?x=a:b', 'urn:ietf:params:netconf:capability:with-defaults:1.0?basic-mode=explicit']


def gen_uri(rng):
    r = rng.random()
    if r < 0.55:
        u = rng.choice(PFX) + 'capability:' + rng.choice(NAMES) + ':' + rng.choice(VERS)
    elif r < 0.70:
        u = rng.choice(PFX) + 'base:' + rng.choice(VERS)
    elif r < 0.80:
        u = rng.choice(LOOKALIKE)
    elif r < 0.87:
        # a well-formed IETF URN EMBEDDED in (not at the start of) a vendor URI, or spelled in another case: never an IETF capability
        w = rng.choice(PFX) + rng.choice(['capability:' + rng.choice(NAMES[:11]) + ':', 'base:']) + rng.choice(VERS[:2])
        u = rng.choice(['x-', 'urn:acme:params:legacy:', 'http://example.com/unsupported/', ' ', 'urn:', 'URN:', '{', 'urn:ietf:params:netconf:capability:'][:7]) + w
        if rng.random() < 0.2:
            u = w.upper()
    else:
        # truncate a well-formed one after a random segment / character
        u = rng.choice(PFX) + rng.choice(['capability:', 'base:']) + rng.choice(NAMES) + ':' + rng.choice(VERS)
        segs = u.split(':')
        if rng.random() < 0.7:
            u = ':'.join(segs[:rng.randint(1, len(segs))])
        else:
            u = u[:rng.randint(0, len(u))]
    if rng.random() < 0.35:
        u += rng.choice(PARAMS)
    return u


def gen_case(rng):
    n = rng.choice([0, 1, 1, 2, 3, 4, 6])
    uris = [gen_uri(rng) for _ in range(n)]
    if uris and rng.random() < 0.15:
        uris.append(rng.choice(uris))          # duplicate (dict overwrite)
    if uris and rng.random() < 0.2:
        # two advertised URIs that differ ONLY in their query part (two revisions of one YANG module): two capabilities
        base = rng.choice(uris).split('?')[0]
        uris.insert(rng.randint(0, len(uris)), base + rng.choice(['?module=m&revision=2019-01-01', '?revision=2021-06-01', '?x=1', '']))
    r = rng.random()
    cand = set()
    for u in uris:
        cand |= spec_abbrev(u)
    if uris and r < 0.25:
        key = rng.choice(uris)
    elif cand and r < 0.6:
        key = rng.choice(sorted(cand))
    elif r < 0.8:
        key = ':' + rng.choice(NAMES) + rng.choice(['', ':' + rng.choice(VERS)])
    elif uris and r < 0.86:
        key = rng.choice(uris).split('?')[0]
    elif uris and r < 0.93:
        # shorthands made from ANY two adjacent segments of an advertised URI (over-acceptance probes)
        segs = rng.choice(uris).split(':')
        i = rng.randrange(len(segs))
        key = ':' + segs[i] + (':' + segs[i + 1] if i + 1 < len(segs) and rng.random() < 0.5 else '')
    else:
        key = rng.choice([gen_uri(rng), '', ':', ':capability', ':netconf', ':base:1.0', ':base:1.1'])
    return {'uris': uris, 'key': key}


def gen_hist(rng):
    """A capability object over its life: built from a list, then added to / removed from, with lookups in between."""
    uris = [gen_uri(rng) for _ in range(rng.choice([0, 1, 2, 3, 5]))]
    pool = list(uris) + [gen_uri(rng) for _ in range(3)]
    ops = []
    for _ in range(rng.randint(3, 14)):
        r = rng.random()
        cand = set()
        for u in pool:
            cand |= spec_abbrev(u)
        if r < 0.2:
            ops.append(['a', rng.choice(pool)])
        elif r < 0.4:
            ops.append(['r', rng.choice(pool + [rng.choice(pool).split('?')[0]])])
        elif r < 0.85:
            key = rng.choice(sorted(cand)) if cand and rng.random() < 0.6 else rng.choice(pool + [':candidate', ':base', rng.choice(pool).split('?')[0]])
            ops.append(['g', key])
            if rng.random() < 0.4:
                ops.append(['g', key])          # the same question twice
        else:
            ops.append(['k'])
    ops.append(['k'])
    return {'kind': 'hist', 'uris': uris, 'ops': ops}


class C08(Check):
    ID = 'C08'
    PROPS_MODULE = 'NcVerif.Props.C08'
    RULE = ('URI lists from a grammar (well-formed under both IETF prefixes, truncated at every segment / character, '
            'over-long, non-IETF look-alikes, IETF URNs embedded in vendor URIs or in upper case, odd parameter strings, duplicates) x one query (advertised full URI, '
            'shorthand of a present URI, shorthand of an absent one, URI without its parameters, junk). A case is '
            'non-trivial when the list is non-empty and the lookup either succeeds or walks at least one IETF-prefixed URI; '
            'distinct = distinct (uris, key). Plus HISTORIES: an object built from a list, then 3-14 add / remove / lookup / iteration steps (the same lookup often twice), compared step by step with the model and with an independent ordered-set object.')
    TRUST = ['Python str.split/startswith semantics as modelled in Model/Basic.lean (compared on every case)']
    ASSUMPTIONS = ['a URI with a second "?" has unspecified parameters (three-valued oracle)']

    def cases(self, rng, tier):
        n = 4000 if tier == 'quick' else 120000
        fixed = [
            {'uris': ['urn:ietf:params:netconf:capability:candidate'], 'key': ':candidate'},
            {'uris': ['urn:ietf:params:netconf:base:1.0', 'urn:ietf:params:netconf:capability:candidate'], 'key': ':base:1.1'},
            {'uris': ['urn:ietf:params:foo:netconf:capability:a:b'], 'key': ':capability'},
            {'uris': ['urn:ietf:params:xml:ns:netconf:base:1.0'], 'key': ':base:1.0'},
            {'uris': ['urn:ietf:params:netconf:capability:url:1.0?scheme=http,ftp'], 'key': ':url'},
            {'uris': [], 'key': ':base'},
        ]
        abbr = [{'kind': 'abbr', 'uri': u} for u in LOOKALIKE] + [{'kind': 'abbr', 'uri': gen_uri(rng)} for _ in range(n // 4)]
        return fixed + [gen_case(rng) for _ in range(n)] + abbr + [gen_hist(rng) for _ in range(n // 4)]

    def run_impl(self, case):
        import logging; logging.disable(logging.CRITICAL)
        from ncclient.capabilities import Capabilities, Capability
        if case.get('kind') == 'abbr':
            try:
                return {'abbr': sorted(Capability.from_uri(case['uri']).get_abbreviations())}
            except Exception as e:
                return {'abbr': 'exc:' + type(e).__name__}
        if case.get('kind') == 'hist':
            try:
                caps = Capabilities(case['uris'])
                outs = []
                for op in case['ops']:
                    if op[0] == 'a':
                        caps.add(op[1])
                    elif op[0] == 'r':
                        caps.remove(op[1])
                    elif op[0] == 'g':
                        try:
                            c = caps[op[1]]
                            o = ['found', c.namespace_uri, sorted([k, v] for k, v in c.parameters.items())]
                        except KeyError:
                            o = ['keyerror']
                        if (op[1] in caps) != (o[0] == 'found'):
                            o.append('in-disagrees')
                        outs.append(o)
                    else:
                        ks = list(caps)
                        outs.append(['keys', ks] + ([] if len(caps) == len(ks) else ['len=%d' % len(caps)]))
                return {'outs': outs}
            except Exception as e:
                return {'outs': 'exc:' + type(e).__name__ + ': ' + str(e)[:60]}
        try:
            caps = Capabilities(case['uris'])
        except Exception as e:
            return {'r': 'ctor-exc:' + type(e).__name__}
        try:
            c = caps[case['key']]
        except KeyError:
            res = {'r': 'KeyError'}
        except Exception as e:
            res = {'r': 'exc:' + type(e).__name__}
        else:
            res = {'r': 'found', 'ns': c.namespace_uri, 'params': sorted([k, v] for k, v in c.parameters.items())}
        try:
            res['in'] = case['key'] in caps
        except Exception as e:
            res['in'] = 'exc:' + type(e).__name__
        res['len'] = len(caps)
        res['iter'] = list(caps)
        return res

    def model_lines(self, case):
        if case.get('kind') == 'hist':
            toks = []
            for op in case['ops']:
                toks += [op[0]] + ([hexs(op[1])] if len(op) > 1 else [])
            return ['caps hist %s %s' % (hlist(hexs(u) for u in case['uris']), ' '.join(toks))]
        if case.get('kind') == 'abbr':
            return ['caps abbrev ' + hexs(case['uri'].split('?')[0])]
        return ['caps get %s %s' % (hlist(hexs(u) for u in case['uris']), hexs(case['key']))]

    def model_obs(self, case, outs):
        if case.get('kind') == 'hist':
            res = []
            for part in outs[0].split(' ; '):
                t = part.split(' ')
                if t[0] == 'found':
                    ps = [p.split('=') for p in unhlist(t[2])]
                    res.append(['found', unhexs(t[1]), sorted([unhexs(k), unhexs(v)] for k, v in ps)])
                elif t[0] == 'keyerror':
                    res.append(['keyerror'])
                elif t[0] == 'keys':
                    res.append(['keys', [unhexs(x) for x in unhlist(t[1])]])
                else:
                    res.append(['driver', part[:40]])
            return {'outs': res}
        if case.get('kind') == 'abbr':
            return {'abbr': sorted(unhexs(x) for x in unhlist(outs[0]))}
        t = outs[0].split(' ')
        if t[0] == 'found':
            ps = [p.split('=') for p in unhlist(t[2])]
            res = {'r': 'found', 'ns': unhexs(t[1]), 'params': sorted([unhexs(k), unhexs(v)] for k, v in ps), 'in': True}
        elif t[0] == 'keyerror':
            res = {'r': 'KeyError', 'in': False}
        else:
            res = {'r': 'exc:' + t[0], 'in': 'exc:' + t[0]}
        res['len'] = int(t[-2])
        res['iter'] = [unhexs(x) for x in unhlist(t[-1])]
        return res

    def oracle(self, case, io):
        if case.get('kind') == 'hist':
            if isinstance(io['outs'], str):
                return ('C08:non-keyerror-exception', 'a history of add / remove / lookup raised %s' % io['outs'])
            # independent abstract object: an ordered set of URIs; a lookup answers as a fresh object holding that set would
            cur = list(dict.fromkeys(case['uris']))
            it = iter(io['outs'])
            for n, op in enumerate(case['ops']):
                if op[0] == 'a':
                    if op[1] not in cur:
                        cur.append(op[1])
                elif op[0] == 'r':
                    cur = [u for u in cur if u != op[1]]
                else:
                    o = next(it)
                    if op[0] == 'k':
                        if o != ['keys', cur]:
                            return ('C08:iteration-after-history', 'after %s the object lists %s, the URIs added and not removed are %s' % (case['ops'][:n], o[1:], cur))
                        continue
                    key = op[1]
                    if 'in-disagrees' in o:
                        return ('C08:in-vs-getitem', '`in` disagrees with lookup for %r after %s' % (key, case['ops'][:n]))
                    holders = [u for u in cur if key in spec_abbrev(u)]
                    if key in cur:
                        ok = o[0] == 'found' and o[1] == key.split('?')[0]
                    elif holders:
                        ok = o[0] == 'found' and o[1] in [h.split('?')[0] for h in holders]
                    else:
                        ok = o[0] == 'keyerror'
                    if not ok:
                        return ('C08:lookup-after-history', 'after %s (object holds %s) the lookup of %r gave %s' % (case['ops'][:n], cur, key, o[:2]))
                    if o[0] == 'found' and (key in cur or len(holders) == 1):
                        src = key if key in cur else holders[0]
                        if src.count('?') <= 1 and dict(map(tuple, o[2])) != spec_params(src):
                            return ('C08:parameters', 'after %s the parameters of %r are exposed as %r' % (case['ops'][:n], src, o[2]))
            return None
        if case.get('kind') == 'abbr':
            want = sorted(spec_abbrev(case['uri']))
            if io['abbr'] != want:
                return ('C08:abbreviations', 'URI %r has shorthands %r, the URN grammar gives %r' % (case['uri'], io['abbr'], want))
            return None
        uris, key = case['uris'], case['key']
        if io['r'].startswith('ctor-exc') or io['r'].startswith('exc:') or str(io.get('in')).startswith('exc:'):
            return ('C08:non-keyerror-exception', 'lookup raised %s (only KeyError is documented) for key %r in %r' % (io['r'], key, uris))
        holders = [u for u in uris if key in spec_abbrev(u)]
        if key in uris:
            if io['r'] != 'found' or io['ns'] != key.split('?')[0]:
                return ('C08:advertised-uri-not-found', 'advertised URI %r not found' % key)
            if key.count('?') <= 1 and dict(map(tuple, io['params'])) != spec_params(key):
                return ('C08:parameters', 'parameters of %r exposed as %r' % (key, io['params']))
        elif holders:
            if io['r'] != 'found':
                return ('C08:shorthand-not-found', 'shorthand %r of %r not found' % (key, holders))
            if io['ns'] not in [h.split('?')[0] for h in holders]:
                return ('C08:shorthand-wrong-capability', 'shorthand %r resolved to %r' % (key, io['ns']))
        else:
            if io['r'] == 'found':
                return ('C08:lookalike-overaccept', 'key %r found (as %r) though no advertised URI is, or abbreviates to, it' % (key, io['ns']))
        if io['in'] != (io['r'] == 'found'):
            return ('C08:in-vs-getitem', '`in` disagrees with lookup')
        if io['iter'] != list(dict.fromkeys(uris)) or io['len'] != len(set(uris)):
            return ('C08:iteration', 'iteration/len do not mirror the advertised URIs')
        return None

    def nontrivial(self, case, io):
        if case.get('kind') == 'hist':
            return any(op[0] in 'ar' for op in case['ops'])
        if case.get('kind') == 'abbr':
            return bool(io['abbr'])
        return bool(case['uris']) and (io['r'] == 'found' or any(u.startswith('urn:ietf:params') for u in case['uris']))

    def search(self, tier, rng, broken):
        return [gen_case(rng) for _ in range(60000)]

    def shrink(self, case, still_fails):
        if case.get('kind') == 'hist':
            cur = case
            changed = True
            while changed:
                changed = False
                for i in range(len(cur['ops'])):
                    cand = dict(cur, ops=cur['ops'][:i] + cur['ops'][i + 1:])
                    if cand['ops'] and still_fails(cand):
                        cur, changed = cand, True
                        break
            return cur
        if case.get('kind') == 'abbr':
            return case
        cur = case
        changed = True
        while changed:
            changed = False
            for i in range(len(cur['uris'])):
                cand = {'uris': cur['uris'][:i] + cur['uris'][i + 1:], 'key': cur['key']}
                if still_fails(cand):
                    cur, changed = cand, True
                    break
        return cur


CHECK = C08
