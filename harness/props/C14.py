"""C14 — malformed or hostile server input cannot corrupt or wedge a session."""
from core import Check
from props._session import SessionCheck, rpc_states
from props import _framing as F
from cases import framing_gen as G
from oracle.framing_spec import expected, decode10, decode11, is_utf8


def accept_outcomes(base11, stream):
    """All outcomes the property allows after the whole stream was read.

    An undecodable payload may end the session with an error OR be dropped; a stream that breaks
    chunk framing must end it with an error (no stall)."""
    payloads, status = (decode11 if base11 else decode10)(stream)
    outs = []
    # raise-mode
    outs.append(expected(base11, stream))
    # drop-mode
    d = [p.decode('utf-8') if base11 else p.decode('utf-8').strip() for p in payloads if is_utf8(p)]
    outs.append((d, 'FramingError' if status.startswith('bad') else None))
    return outs


class C14(SessionCheck):
    ID = 'C14'
    PROPS_MODULE = 'NcVerif.Props.C14'
    RULE = ('byte streams from a mutation grammar over valid frame sequences (drop/insert/flip a byte, chunk size +-1 / 0 / leading zero / '
            '20 digits, missing LF, end-of-chunks first, truncation anywhere, invalid UTF-8 and NUL inserted anywhere, garbage prefix, '
            'duplicated delimiter; 1-3 mutations) x random segmentations, both versions; plus bounded-exhaustive streams over the alphabet '
            '{LF # 1 2 0 ] > x C3 A9} (quick: length <= 5, thorough: <= 6) x {whole, every single cut}. Chunk headers of 1-14 digits not terminated by LF; mid-message EOF biased to chunk boundaries. Non-trivial = the reference decoder '
            'finds a framing violation, an undecodable payload, or >= 1 payload; distinct by (version, reads). Plus lock-step session histories '
            '(odd / hostile messages, faults) compared with Model/Session, with the stop invariant evaluated on the real objects.')
    TRUST = SessionCheck.TRUST + ['the reference RFC 4742/6242 decoders in harness/oracle/framing_spec.py']
    ASSUMPTIONS = ['an undecodable payload may either end the session with an error or be dropped (the statement allows both)']
    _exh = 0
    FLAVOR_WEIGHTS = {'odd': 5, 'fault': 3, 'normal': 1}
    N_QUICK = 90
    N_THOROUGH = 1500

    def cases(self, rng, tier):
        out = SessionCheck.cases(self, rng, tier)
        n = 2500 if tier == 'quick' else 60000
        for _ in range(n):
            out.append(G.gen_hostile_case(rng))
        maxlen = 5 if tier == 'quick' else 6
        for base11 in (True, False):
            alpha = G.SMALL_ALPHA if base11 else [b']', b'>', b'x', b'\xc3', b'\xa9', b' ']
            ml = maxlen if base11 else maxlen + 2
            for s in G.exhaustive_streams(ml if len(alpha) <= 6 else maxlen, alpha):
                if not s:
                    continue
                self._exh += 1
                out.append({'base11': base11, 'muts': ['exhaustive'], 'segs': [s.hex()]})
                if len(s) <= (4 if tier == 'quick' else 5):
                    for cut in range(1, len(s)):
                        out.append({'base11': base11, 'muts': ['exhaustive'], 'segs': [s[:cut].hex(), s[cut:].hex()]})
        return out

    def run_impl(self, case):
        if 'segs' not in case:
            return SessionCheck.run_impl(self, case)
        return F.run_feed_impl(case)

    def model_lines(self, case):
        if 'segs' not in case:
            return SessionCheck.model_lines(self, case)
        return [F.feed_line(case)]

    def model_obs(self, case, outs):
        if 'segs' not in case:
            return SessionCheck.model_obs(self, case, outs)
        return F.parse_feed_out(outs[0])

    def compare(self, case, io, mo):
        if 'segs' not in case:
            return SessionCheck.compare(self, case, io, mo)
        return Check.compare(self, case, io, mo)

    def shrink(self, case, still_fails):
        if 'segs' not in case:
            return SessionCheck.shrink(self, case, still_fails)
        return case

    def case_timeout(self, case):
        return None if 'segs' in case else self.CASE_TIMEOUT

    def session_oracle(self, case, io):
        """Whenever the worker has stopped, for whatever reason: disconnected, every request that existed is failed or answered;
        messages the XML library cannot parse reach no request."""
        obs = io['obs']
        if not obs:
            return None
        info = case.get('info') or {}
        stop = next((k for k, o in enumerate(obs) if o['pc'] == 'stopped'), None)
        if stop is not None:
            last = obs[-1]
            closing_client = info.get('closed')
            if obs[stop]['connected'] and not closing_client:
                return ('C14:stopped-but-connected', 'the worker stopped but the session still reports connected')
            failing_from = next((k for k, o in enumerate(obs) if o['pc'] in ('close', 'stopped')), stop)
            for i, st in rpc_states(obs[stop]).items():
                created = next(k for k, o in enumerate(obs) if i in rpc_states(o))
                if st == 'W' and created < failing_from and io['req_status'][i - 1] in ('sent', 'trap'):
                    return ('C14:pending-not-failed-at-stop', 'the worker stopped with request %d still waiting' % i)
        elif info.get('finished') and io['conn_result'] == 'ok' and info.get('server_out_left', 1) == 0 and not info.get('closed'):
            # not stopped, and everything the server sent has been read: a request whose reply was sent must have it (or an error) by
            # now - bad input in between is dropped or ends the session, it never wedges it
            import xml.etree.ElementTree as ET
            proper = set()          # ids answered by an <rpc-reply> in the NETCONF base namespace (what every profile accepts)
            for t in info.get('server_texts') or []:
                try:
                    r = ET.fromstring(t)
                except Exception:
                    continue
                if r.tag == '{urn:ietf:params:xml:ns:netconf:base:1.0}rpc-reply' and r.get('message-id'):
                    proper.add(r.get('message-id'))
            for i, st in rpc_states(obs[-1]).items():
                rid = io['req_ids'][i - 1] if i - 1 < len(io.get('req_ids', [])) else None
                if st == 'W' and rid is not None and rid in proper and io['req_status'][i - 1] == 'sent':
                    return ('C14:session-wedged', 'request %d: its reply was sent and completely read, the worker is still running, yet the request got '
                            'neither the reply nor an error' % i)
        # what take_notification hands to the caller is a well-formed document (judged by an independent parser)
        import xml.etree.ElementTree as ET2
        from core import unhexs as _unhexs
        for t in obs[-1].get('taken', []):
            raw = _unhexs(t)
            try:
                ET2.fromstring(raw.encode('utf-8'))
            except Exception as e:
                return ('C14:non-xml-reached-caller', 'take_notification returned a payload that is not well-formed XML: %r (%s)' % (raw[:80], type(e).__name__))
        # a reply the library parses for the caller (reply.ok / data_ele / …) is well-formed XML for an independent parser as well
        last_obs = obs[-1]
        for i, st in rpc_states(last_obs).items():
            pv = (last_obs.get('reply_parses') or [])
            if st.startswith('R') and i - 1 < len(pv) and pv[i - 1] == 'P':
                raw = _unhexs(st[1:])
                try:
                    ET2.fromstring(raw.encode('utf-8'))
                except Exception as e:
                    return ('C14:non-xml-reply-parsed-as-data', 'request %d holds a reply that is not well-formed XML (%s), yet the library parses it and hands its content to the caller: %r' % (i, type(e).__name__, raw[:100]))
        # a request only ever completes with a well-formed reply carrying its id (never garbage as data)
        for o in obs:
            for i, st in rpc_states(o).items():
                if st.startswith('R'):
                    from core import unhexs
                    raw = unhexs(st[1:])
                    if 'rpc-reply' not in raw:
                        return ('C14:non-reply-delivered', 'request %d was completed with %r' % (i, raw[:60]))
        return None

    def oracle(self, case, io):
        if 'segs' not in case:
            return self.session_oracle(case, io)
        stream = F.stream_of(case)
        # the implementation stops reading at its first error; the bytes it has seen are a prefix
        seen = b''
        for i, s in enumerate(case['segs']):
            seen += bytes.fromhex(s)
            if i + 1 == len(io['counts']):
                break
        if io['error'] is None:
            seen = stream
        ok = [o for o in accept_outcomes(case['base11'], seen)]
        got = (io['delivered'], io['error'])
        if got in ok:
            return None
        exp = ok[0]
        if got[1] is None and exp[1] == 'FramingError' and got[0] == exp[0]:
            # the error may be raised lazily, once the delimiter being read is complete - but then EVERY next byte must raise it
            from impl.framing import feed_parser
            if all(feed_parser(case['base11'], [bytes.fromhex(x) for x in case['segs']] + [b])['error'] == 'FramingError'
                   for b in (b'\n', b'#', b'x', b'1')):
                return None
        if got[1] is None and exp[1] == 'FramingError':
            return ('C14:stall-on-broken-framing', 'stream breaks 1.1 chunk framing but the parser neither raised nor can it ever deliver (stall)')
        if got[0] != exp[0][:len(got[0])] and got[0] != ok[1][0][:len(got[0])]:
            return ('C14:invented-or-altered-message', 'delivered %r, the stream frames %r' % (got[0][:3], exp[0][:3]))
        return ('C14:wrong-outcome', 'outcome %r, allowed %r' % ((len(got[0]), got[1]), [(len(a), b) for a, b in ok]))

    def nontrivial(self, case, io):
        if 'segs' not in case:
            return SessionCheck.nontrivial(self, case, io)
        stream = F.stream_of(case)
        payloads, status = (decode11 if case['base11'] else decode10)(stream)
        return bool(payloads) or status.startswith('bad')

    def search(self, tier, rng, broken):
        return [G.gen_hostile_case(rng) for _ in range(10000)] + SessionCheck.search(self, tier, rng, broken)

    def extra_coverage(self):
        d = SessionCheck.extra_coverage(self)
        d['bounded_exhaustive_streams'] = self._exh
        return d


CHECK = C14
