"""C10 — reply content reaches the caller unaltered."""
import xml.etree.ElementTree as ET

from core import Check, hexs, unhexs
from cases import xml_gen as X

BASE = 'urn:ietf:params:xml:ns:netconf:base:1.0'
MON = 'urn:ietf:params:xml:ns:yang:ietf-netconf-monitoring'


def gen_reply_tree(rng, pis):
    data_children = [X.gen_tree(rng, depth=1, max_depth=4, pis=pis) for _ in range(rng.choice([0, 1, 1, 2, 3]))]
    if rng.random() < 0.4:
        data_children.insert(rng.randint(0, len(data_children)), ['T', rng.choice(X.BLANKS)])
    if rng.random() < 0.2:
        data_children.append(['C', ' trailing comment '])
    root_children = []
    if rng.random() < 0.3:
        root_children.append(['T', '\n  '])
    root_children.append(['E', BASE, 'data', [], data_children])
    if rng.random() < 0.3:
        root_children.append(['T', '\n'])
    return ['E', BASE, 'rpc-reply', [[None, 'message-id', 'MID']], root_children]


def serialise(tree, decl, mid):
    from lxml import etree
    el = X.to_lxml(tree)
    el.set('message-id', mid)
    s = etree.tostring(el, encoding='unicode')
    return ('<?xml version="1.0" encoding="UTF-8"?>' if decl else '') + s


class C10(Check):
    ID = 'C10'
    PROPS_MODULE = 'NcVerif.Props.C10'
    RULE = ('random well-formed reply documents (nesting <= 4, default and prefixed namespaces, namespaced attributes, Unicode and markup-bearing '
            'text, whitespace-only text, comments, processing instructions, with / without XML declaration) answered to get / get_config / rpc '
            'through the REAL request path for profiles default, junos (XSLT), alu (remove_namespaces), sros (pass-through): reply.xml vs the '
            'text the server sent, data_ele / data_xml vs the <data> child, and for transforming profiles the returned tree vs the model and vs '
            'the shape of the server\'s reply parsed with xml.etree, also after the caller has printed / queried the reply object; huge text node / deep tree with huge_tree on. '
            'The reply object printed / queried before its content is read; xpath with the caller\'s own prefix map; trees as deep as the huge-tree parser reads on every profile, four sessions receiving them concurrently, vendor operations on a manager with huge_tree on; reply.xml over a real Unix socket. Non-trivial = a reply whose <data> has at least one element; distinct by case.')
    TRUST = ['libxml2 / libxslt parsing, XSLT engine and huge-tree limits (environment; exercised for real, not modelled)']
    ASSUMPTIONS = ['two attributes of one element with the same local name in different namespaces collapse under namespace stripping (not generated)']

    def cases(self, rng, tier):
        n = 400 if tier == 'quick' else 12000
        out = []
        for i in range(n):
            prof = ['default', 'junos', 'alu', 'sros'][i % 4]
            out.append({'kind': 'reply', 'profile': prof, 'tree': gen_reply_tree(rng, pis=(rng.random() < 0.3)), 'decl': rng.random() < 0.4,
                        'op': rng.choice(['get', 'get_config', 'rpc']),
                        # what the caller does with the reply object BEFORE reading its content (logging it, querying it): none of it may change it
                        'touch': [[], ['str'], ['tostring', 'xpath'], ['find', 'str', 'data_xml']][(i // 4) % 4]})
        # huge-tree support switched on for the manager: every profile, also those that post-process the reply (their transforms
        # must not fall back to a parser with the default limits)
        for prof in ('default', 'junos', 'alu', 'sros'):
            out.append({'kind': 'huge', 'what': 'text', 'profile': prof, 'size': 11 * 1024 * 1024 if tier == 'thorough' else 10 * 1024 * 1024 + 5000})
            out.append({'kind': 'huge', 'what': 'depth', 'profile': prof, 'size': 300})
            # as deep as the huge-tree parser of this libxml2 reads (its own ceiling is 2048): a reply transform may not give up earlier
            for d in ((1500, 2040) if tier == 'quick' else (600, 1000, 1400, 1500, 1700, 2000, 2040)):
                out.append({'kind': 'huge', 'what': 'depth', 'profile': prof, 'size': d})
        out.append({'kind': 'schema'})
        # over a real transport (Unix socket, both framings, huge-tree on and off): reply.xml must be the text the server framed,
        # XML declaration / leading comment / surrounding white space included (1.0: modulo surrounding white space)
        for i, pre in enumerate(['<?xml version="1.0" encoding="UTF-8"?>', "<?xml version='1.0'?>\n", '<!-- device banner -->', '', '  \n']):
            for b11 in (False, True):
                out.append({'kind': 'wire', 'pre': pre, 'base11': b11, 'huge': bool(i % 2), 'big': 11 * 1024 * 1024 if (i == 0 and b11) else 0})
        # get-schema through the reply OBJECT (async mode keeps the GetSchemaReply) and through the synchronous path, for the profiles
        # with a reply transform or a get-schema workaround; Junos also with its non-compliant <data> in the base namespace
        for prof in ('default', 'junos', 'sros', 'alu'):
            for shape in (('mon',) if prof != 'junos' else ('mon', 'base', 'unqualified-under-prefix')):
                for asyn in (False, True):
                    out.append({'kind': 'schema2', 'profile': prof, 'shape': shape, 'async': asyn})
        # namespace bindings that are used only inside VALUES (identityref / instance-identifier): declared on <rpc-reply>, on <data> or
        # on the element itself; data_ele / data_xml must still resolve them
        for i in range(24 if tier == 'quick' else 400):
            out.append({'kind': 'qname', 'op': ['get', 'get_config'][i % 2], 'where': ['reply', 'data', 'self'][i % 3],
                        'prefix': rng.choice(['ianaift', 'acme', 'p', 'x-y']), 'uri': rng.choice(['urn:ietf:params:xml:ns:yang:iana-if-type', 'urn:acme:ports', 'http://ex/%d' % i]),
                        'in_attr': rng.random() < 0.3, 'decl': rng.random() < 0.3})
        # operations that switch huge-tree support on for their own call (manager default: off)
        for op in ('get_schema', 'junos-get_configuration-text', 'sros-md_cli_raw_command'):
            out.append({'kind': 'huge-op', 'op': op, 'size': 10 * 1024 * 1024 + 5000})
        # several sessions of one process receive deep replies at the same time (profiles with a reply transform included)
        for prof in (('junos',) if tier == 'quick' else ('junos', 'alu', 'default')):
            out.append({'kind': 'huge-concurrent', 'profile': prof, 'threads': 4, 'rounds': 8 if tier == 'quick' else 40, 'depth': 1700})
        # ... and vendor operations called on a manager whose huge_tree is ON: the operation may not switch it off again
        for op in ('junos-get_configuration-xml', 'junos-compare_configuration', 'junos-command', 'sros-md_compare', 'alu-get_configuration'):
            out.append({'kind': 'huge-mgr-op', 'op': op, 'depth': 300})
        return out

    def run_wire(self, case):
        from impl import fakeserver as FS
        from ncclient import manager
        body = '<data><v>é %s</v><t>%s</t></data>' % ('&lt;x&gt;', 'y' * case['big'])
        sent = []

        def handler(srv, req):
            t = case['pre'] + '<rpc-reply message-id="%s" xmlns="%s">%s</rpc-reply>' % (FS.msg_id_of(req), BASE, body) + ('\n' if case['pre'] == '  \n' else '')
            sent.append(t)
            return [('send', t)]
        caps = [c for c in FS.STD_CAPS if case['base11'] or c != FS.B11]
        srv = FS.UnixServer(caps=caps, handler=handler)
        try:
            m = manager.connect_uds(path=srv.path, timeout=10)
            m.huge_tree = case['huge'] or bool(case['big'])
            try:
                r = m.get()
                return {'xml': r.xml if not case['big'] else None, 'xml_eq': r.xml == sent[0] or (not case['base11'] and r.xml == sent[0].strip()),
                        'sent': sent[0] if not case['big'] else None, 'data_ok': r.data_ele is not None and len(r.data_xml) > case['big']}
            except Exception as e:
                return {'exc': type(e).__name__ + ': ' + str(e)[:80]}
            finally:
                try:
                    m._session.close()
                except Exception:
                    pass
        finally:
            srv.cleanup()

    def run_impl(self, case):
        if case['kind'] == 'wire':
            return self.run_wire(case)
        from impl.rpcstub import make_manager
        from ncclient import xml_ as nx
        from ncclient.xml_ import new_ele
        if case['kind'] == 'huge':
            if case['what'] == 'text':
                body = '<data><t>%s</t></data>' % ('x' * case['size'])
            else:
                body = '<data>' + ''.join('<d%d>' % i for i in range(case['size'])) + 'v' + ''.join('</d%d>' % i for i in reversed(range(case['size']))) + '</data>'
            m, s, dh = make_manager(profile=case.get('profile', 'default'), responder=lambda req, mid: '<rpc-reply message-id="%s" xmlns="%s">%s</rpc-reply>' % (mid, BASE, body), raise_mode=0)
            m.huge_tree = True
            try:
                r = m.get()
                if hasattr(r, 'data_ele'):
                    d = r.data_ele
                return {'ok': True, 'len': len(r.data_xml)}
            except Exception as e:
                return {'ok': False, 'exc': type(e).__name__}
        if case['kind'] == 'huge-concurrent':
            import threading
            d = case['depth']
            deep = '<data>' + ''.join('<d%d>' % i for i in range(d)) + 'v' + ''.join('</d%d>' % i for i in reversed(range(d))) + '</data>'
            errs = []

            def work(k):
                m, s, dh = make_manager(profile=case['profile'], responder=lambda req, mid: '<rpc-reply message-id="%s" xmlns="%s">%s</rpc-reply>' % (mid, BASE, deep), raise_mode=0)
                m.huge_tree = True
                for _ in range(case['rounds']):
                    try:
                        if len(m.get().data_xml) < d * 8:
                            errs.append('short')
                    except Exception as e:
                        errs.append(type(e).__name__ + ': ' + str(e)[:60])
            ths = [threading.Thread(target=work, args=(k,), daemon=True) for k in range(case['threads'])]
            for t in ths:
                t.start()
            for t in ths:
                t.join(120)
            return {'ok': not errs, 'errs': errs[:3], 'n_err': len(errs)}
        if case['kind'] == 'huge-mgr-op':
            d = case['depth']
            deep = ''.join('<d%d>' % i for i in range(d)) + 'v' + ''.join('</d%d>' % i for i in reversed(range(d)))
            prof, opn = case['op'].split('-', 1)
            m, s, dh = make_manager(profile=prof, responder=lambda req, mid: '<rpc-reply message-id="%s" xmlns="%s"><configuration>%s</configuration></rpc-reply>' % (mid, BASE, deep), raise_mode=0)
            m.huge_tree = True
            calls = {'get_configuration-xml': lambda: m.get_configuration(format='xml'), 'compare_configuration': lambda: m.compare_configuration(),
                     'command': lambda: m.command('show version', format='xml'), 'md_compare': lambda: m.md_compare(),
                     'get_configuration': lambda: m.get_configuration()}
            try:
                if not hasattr(m, opn.split('-')[0]):
                    return {'ok': True, 'len': 10 ** 9, 'skipped': 'no such operation'}
                r = calls[opn]()
                v = r.data_xml if hasattr(r, 'data_xml') else r.xml
                return {'ok': True, 'len': len(v)}
            except Exception as e:
                return {'ok': False, 'exc': type(e).__name__ + ': ' + str(e)[:80]}
        if case['kind'] == 'huge-op':
            big = 'y' * case['size']
            if case['op'] == 'get_schema':
                m, s, dh = make_manager(responder=lambda req, mid: '<rpc-reply message-id="%s" xmlns="%s"><data xmlns="%s">%s</data></rpc-reply>' % (mid, BASE, MON, big), raise_mode=0)
                call = lambda: m.get_schema('m').data
            elif case['op'] == 'junos-get_configuration-text':
                m, s, dh = make_manager(profile='junos', responder=lambda req, mid: '<rpc-reply message-id="%s" xmlns="%s"><configuration-text>%s</configuration-text></rpc-reply>' % (mid, BASE, big), raise_mode=0)
                call = lambda: m.get_configuration(format='text').data_xml
            else:
                m, s, dh = make_manager(profile='sros', responder=lambda req, mid: '<rpc-reply message-id="%s" xmlns="%s"><results><md-cli-output-block>%s</md-cli-output-block></results></rpc-reply>' % (mid, BASE, big), raise_mode=0)
                call = lambda: m.md_cli_raw_command('show').data_xml
            try:
                v = call()
                return {'ok': True, 'len': len(v)}
            except Exception as e:
                return {'ok': False, 'exc': type(e).__name__}
        if case['kind'] == 'schema2':
            text = 'module m { namespace "urn:m"; prefix m; leaf x { type string; description "é <&> ]]"; } }'
            esc = text.replace('&', '&amp;').replace('<', '&lt;')
            if case['shape'] == 'mon':
                tmpl = '<rpc-reply message-id="%s" xmlns="' + BASE + '"><data xmlns="' + MON + '">' + esc + '</data></rpc-reply>'
            elif case['shape'] == 'base':
                tmpl = '<rpc-reply message-id="%s" xmlns="' + BASE + '"><data>' + esc + '</data></rpc-reply>'
            else:
                tmpl = '<nc:rpc-reply message-id="%s" xmlns:nc="' + BASE + '"><data>' + esc + '</data></nc:rpc-reply>'
            m, s, dh = make_manager(profile=case['profile'], responder=lambda req, mid: tmpl % mid, raise_mode=0)
            try:
                if case['async']:
                    m.async_mode = True
                    rpc = m.get_schema('m')
                    rpc.event.wait(2)
                    r = rpc.reply
                    return {'data': r.data, 'want': text, 'via': 'reply-object'}
                r = m.get_schema('m')
                if type(r).__name__ == 'NCElement':
                    got = ''.join(nx.to_ele(r.data_xml).itertext())
                    return {'data': got, 'want': text, 'via': 'ncelement'}
                return {'data': r.data, 'want': text, 'via': 'reply'}
            except Exception as e:
                return {'data': None, 'want': text, 'via': 'exc:' + type(e).__name__ + ':' + str(e)[:80]}
        if case['kind'] == 'qname':
            pf, uri = case['prefix'], case['uri']
            decl = ' xmlns:%s="%s"' % (pf, uri)
            val = '%s:ethernetCsmacd' % pf
            leaf = ('<type%s ref="%s"/>' if case['in_attr'] else '<type%s>%s</type>') % (decl if case['where'] == 'self' else '', val)
            tmpl = ('<?xml version="1.0" encoding="UTF-8"?>' if case['decl'] else '') + \
                '<rpc-reply message-id="%s" xmlns="' + BASE + '"' + (decl if case['where'] == 'reply' else '') + '><data' + \
                (decl if case['where'] == 'data' else '') + '><interfaces xmlns="urn:ietf:params:xml:ns:yang:ietf-interfaces"><interface><name>e0</name>' + \
                leaf + '</interface></interfaces></data></rpc-reply>'
            m, s, dh = make_manager(responder=lambda req, mid: tmpl % mid, raise_mode=0)
            r = m.get() if case['op'] == 'get' else m.get_config(source='running')
            res = {}
            for what, root in (('data_ele', r.data_ele), ('data_xml', ET.fromstring(r.data_xml.split('?>', 1)[-1] if r.data_xml.startswith('<?xml') else r.data_xml))):
                if what == 'data_ele':
                    t = [e for e in root.iter() if isinstance(e.tag, str) and e.tag.endswith('}type')][0]
                    res[what] = t.nsmap.get(pf)
                else:
                    # independent reading: prefix bindings in scope at <type> according to xml.etree's event stream
                    import io as _io
                    scope, found = [], [None]
                    for ev, x in ET.iterparse(_io.BytesIO(r.data_xml.encode('utf-8')), events=('start-ns', 'end-ns', 'start')):
                        if ev == 'start-ns':
                            scope.append(x)
                        elif ev == 'end-ns':
                            scope.pop()
                        elif x.tag.endswith('}type'):
                            found[0] = dict(scope).get(pf)
                    res[what] = found[0]
            return {'bound': res, 'want': uri}
        if case['kind'] == 'schema':
            text = 'module m { namespace "urn:m"; prefix m; leaf x { type string; description "é <&>"; } }'
            m, s, dh = make_manager(responder=lambda req, mid: '<rpc-reply message-id="%s" xmlns="%s"><data xmlns="%s">%s</data></rpc-reply>' % (
                mid, BASE, MON, text.replace('&', '&amp;').replace('<', '&lt;')), raise_mode=0)
            r = m.get_schema('m')
            return {'data': r.data, 'want': text}
        sent = {}

        def responder(req, mid):
            sent['raw'] = serialise(case['tree'], case['decl'], mid)
            sent['mid'] = mid
            return sent['raw']
        m, s, dh = make_manager(profile=case['profile'], responder=responder, raise_mode=0)
        try:
            if case['op'] == 'get':
                r = m.get()
            elif case['op'] == 'get_config':
                r = m.get_config(source='running')
            else:
                r = m.rpc(new_ele('x'))
        except Exception as e:
            return {'exc': type(e).__name__, 'msg': str(e)[:120]}
        res = {'mid': sent['mid']}
        # independent reading of what the server sent
        res['sent_shape'] = X.shape(X.from_lxml(X.et_parse_full(sent['raw'])))
        for t in case.get('touch', []):
            try:
                if t == 'str':
                    str(r)
                elif t == 'tostring':
                    getattr(r, 'tostring', None)
                elif t == 'xpath':
                    r.xpath('//*') if hasattr(r, 'xpath') else None
                elif t == 'find':
                    (r.find('.//nothing') if hasattr(r, 'find') else None), (r.findtext('.//nothing') if hasattr(r, 'findtext') else None), (r.findall('.//nothing') if hasattr(r, 'findall') else None)
                elif t == 'data_xml':
                    getattr(r, 'data_xml', None)
            except Exception as e:
                return {'exc': type(e).__name__, 'msg': 'while observing the reply (%s): %s' % (t, str(e)[:100])}
        if type(r).__name__ == 'NCElement':
            doc = nx.to_ele(r.data_xml)
            res['returned'] = X.canon(X.from_lxml(doc))
            res['kind'] = 'ncelement'
            res['find_data'] = r.find('.//data') is not None or r.find('.//{%s}data' % BASE) is not None
            if case['profile'] == 'sros':
                # namespaces are kept: the caller queries with its OWN prefix map - whatever prefix it picks (also one the library's static
                # table uses for something else) must mean what the caller says
                sent_root = X.et_parse_full(sent['raw'])
                tags = [e.tag for e in sent_root.iter() if isinstance(e.tag, str) and e.tag.startswith('{') and not e.tag.startswith('{' + BASE)]
                if tags:
                    ns, name = tags[0][1:].split('}')
                    want = sum(1 for e in sent_root.iter() if e.tag == tags[0])
                    got = {}
                    for pfx in ('q', 're', 'nc', 'junos'):
                        try:
                            got[pfx] = len(r.xpath('//%s:%s' % (pfx, name), namespaces={pfx: ns}))
                        except Exception as e:
                            got[pfx] = 'exc:' + type(e).__name__
                    res['xpath_own_prefix'] = {'want': want, 'got': got, 'tag': tags[0]}
        else:
            res['kind'] = 'reply'
            res['raw_equal'] = r.xml == sent['raw']
            if hasattr(r, 'data_ele'):
                d = r.data_ele
                res['data'] = None if d is None else X.canon(X.from_lxml(d))
                res['data_xml'] = None if d is None else X.canon(X.from_lxml(nx.to_ele(r.data_xml)))
        return res

    def _tree_with_mid(self, case, mid):
        t = case['tree']
        return ['E', t[1], t[2], [[None, 'message-id', mid]], t[4]]

    def model_lines(self, case):
        if case['kind'] != 'reply' or case['profile'] not in ('junos', 'alu'):
            return []
        t = self._tree_with_mid(case, 'MID')
        return ['xm %s %s' % ('stripns' if case['profile'] == 'junos' else 'stripelem', ' '.join(X.toks(t)))]

    def model_obs(self, case, outs):
        if not outs:
            return None
        return {'tree': X.canon(X.parse_out_nodes(outs[0])[0])}

    def compare(self, case, io, mo):
        if mo is None or 'returned' not in io:
            return None
        want = mo['tree']
        want = ['E', want[1], want[2], [[a[0], a[1], io['mid'] if a[1] == 'message-id' else a[2]] for a in want[3]], want[4]]
        got = io['returned']
        if case['profile'] == 'alu':
            # the ALU transform works on the parsed tree; lxml keeps whitespace there: compare as is
            pass
        if case['profile'] == 'junos':
            want, got = X.drop_blank(want), X.drop_blank(got)
        if X.canon(want) != X.canon(got):
            return 'transformed reply differs from the model (profile %s)' % case['profile']
        return None

    def oracle(self, case, io):
        if case['kind'] == 'wire':
            tag = 'base:1.%d, prefix %r, %d-byte text' % (1 if case['base11'] else 0, case['pre'], case['big'])
            if 'exc' in io:
                return ('C10:reply-failed-over-transport', 'get over a Unix socket (%s) raised %s' % (tag, io['exc']))
            if not io['xml_eq']:
                return ('C10:raw-xml-altered', 'reply.xml is not the message the server sent (%s): got %r' % (tag, (io['xml'] or '')[:80]))
            if not io['data_ok']:
                return ('C10:data-not-child', 'data_ele / data_xml missing over the transport (%s)' % tag)
            return None
        if case['kind'] == 'huge-concurrent':
            if not io['ok']:
                return ('C10:huge-tree-rejected:concurrent@' + case['profile'], '%d sessions (%s, huge_tree on) receiving replies %d elements deep at the same time: %d of %d calls failed (%s)' % (
                    case['threads'], case['profile'], case['depth'], io['n_err'], case['threads'] * case['rounds'], io['errs']))
            return None
        if case['kind'] == 'huge-mgr-op':
            if not io['ok'] or io['len'] < case['depth'] * 8:
                return ('C10:huge-tree-rejected:' + case['op'], '%s on a manager with huge_tree enabled: a reply %d elements deep failed (%s)' % (case['op'], case['depth'], io.get('exc')))
            return None
        if case['kind'] == 'huge-op':
            if not io['ok'] or io['len'] < case['size']:
                return ('C10:huge-tree-rejected:' + case['op'], '%s enables huge-tree support for its call, yet a reply with a %d-byte text node failed (%s)' % (case['op'], case['size'], io.get('exc')))
            return None
        if case['kind'] == 'huge':
            if not io['ok']:
                return ('C10:huge-tree-rejected:' + case['what'], 'reply with a huge %s (%d) failed to parse with huge_tree enabled on profile %s (%s)' % (
                    case['what'], case['size'], case.get('profile'), io.get('exc')))
            return None
        if case['kind'] == 'huge-op':
            big = 'y' * case['size']
            if case['op'] == 'get_schema':
                m, s, dh = make_manager(responder=lambda req, mid: '<rpc-reply message-id="%s" xmlns="%s"><data xmlns="%s">%s</data></rpc-reply>' % (mid, BASE, MON, big), raise_mode=0)
                call = lambda: m.get_schema('m').data
            elif case['op'] == 'junos-get_configuration-text':
                m, s, dh = make_manager(profile='junos', responder=lambda req, mid: '<rpc-reply message-id="%s" xmlns="%s"><configuration-text>%s</configuration-text></rpc-reply>' % (mid, BASE, big), raise_mode=0)
                call = lambda: m.get_configuration(format='text').data_xml
            else:
                m, s, dh = make_manager(profile='sros', responder=lambda req, mid: '<rpc-reply message-id="%s" xmlns="%s"><results><md-cli-output-block>%s</md-cli-output-block></results></rpc-reply>' % (mid, BASE, big), raise_mode=0)
                call = lambda: m.md_cli_raw_command('show').data_xml
            try:
                v = call()
                return {'ok': True, 'len': len(v)}
            except Exception as e:
                return {'ok': False, 'exc': type(e).__name__}
        if case['kind'] == 'schema2':
            if io['data'] != io['want']:
                return ('C10:schema-text-altered@%s/%s/%s' % (case['profile'], case['shape'], 'async' if case['async'] else 'sync'),
                        'get_schema on %s (%s <data>, %s): the schema text the server sent is not what the caller gets (%s: %r)' % (
                            case['profile'], case['shape'], 'reply object' if case['async'] else 'synchronous call', io['via'], (io['data'] or '')[:40]))
            return None
        if case['kind'] == 'qname':
            for what, got in io['bound'].items():
                if got != io['want']:
                    return ('C10:value-prefix-unbound:' + what, '%s: prefix %r used in a value is bound to %r, the reply bound it to %r (declared on %s)' % (
                        what, case['prefix'], got, io['want'], case['where']))
            return None
        if case['kind'] == 'schema':
            if io['data'] != io['want']:
                return ('C10:schema-text-altered', 'get_schema data differs from what the server sent')
            return None
        key = case['profile']
        if 'exc' in io:
            return ('C10:reply-lost@' + key, 'a well-formed reply raised %s: %s' % (io['exc'], io.get('msg')))
        xo = io.get('xpath_own_prefix')
        if xo and any(v != xo['want'] for v in xo['got'].values()):
            return ('C10:xpath-caller-prefix@' + key, 'reply.xpath with the caller\'s own prefix map: the reply has %d elements %s, the query found %s (by prefix used)' % (
                xo['want'], xo['tag'], xo['got']))
        tree = self._tree_with_mid(case, io['mid'])
        if io['kind'] == 'reply':
            if not io['raw_equal']:
                return ('C10:raw-altered@' + key, 'reply.xml is not the message the server sent')
            if 'data' in io:
                want = X.canon(next(c for c in tree[4] if c[0] == 'E' and c[2] == 'data'))
                # tail whitespace of <data> belongs to the parent: drop it for comparison
                if io['data'] != want or io['data_xml'] != want:
                    return ('C10:data-not-child@' + key, 'data_ele / data_xml is not the reply\'s <data> child')
            return None
        # transforming profiles: same structure, order, non-blank text, attribute values; only namespaces (and blank text) removed
        got_shape = X.shape(io['returned'])
        if got_shape != io['sent_shape']:
            return ('C10:transform-altered-content@' + key, 'the transformed reply differs from the server\'s reply beyond namespaces / blank text')
        if key == 'junos':
            def has_ns(n):
                return n[0] == 'E' and (n[1] is not None or any(a[0] for a in n[3]) or any(has_ns(c) for c in n[4]))
            if has_ns(io['returned']):
                return ('C10:namespaces-left@junos', 'the Junos transform left a namespace in the reply')
        if key == 'sros':
            if X.canon(io['returned']) != X.canon(X.from_lxml(X.to_lxml(tree))):
                return ('C10:passthrough-altered@sros', 'the SR OS pass-through changed the reply')
        return None

    def nontrivial(self, case, io):
        if case['kind'] != 'reply':
            return True
        data = next(c for c in case['tree'][4] if c[0] == 'E')
        return any(c[0] == 'E' for c in data[4])


CHECK = C10
