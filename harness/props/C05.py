"""C05 — hello exchange and framing-version negotiation."""
import xml.etree.ElementTree as ET

from props._session import SessionCheck, rpc_states, client_frames
from core import unhexs, LEAN, REPO
from cases import session_gen as SG
from oracle.framing_spec import decode10, decode11, DELIM10

B11 = 'urn:ietf:params:netconf:base:1.1'
BASE_NS = 'urn:ietf:params:xml:ns:netconf:base:1.0'
DOC_DEFAULT = [
    "urn:ietf:params:netconf:base:1.0", "urn:ietf:params:netconf:base:1.1",
    "urn:ietf:params:netconf:capability:writable-running:1.0", "urn:ietf:params:netconf:capability:candidate:1.0",
    "urn:ietf:params:netconf:capability:confirmed-commit:1.0", "urn:ietf:params:netconf:capability:rollback-on-error:1.0",
    "urn:ietf:params:netconf:capability:startup:1.0", "urn:ietf:params:netconf:capability:url:1.0?scheme=http,ftp,file,https,sftp",
    "urn:ietf:params:netconf:capability:validate:1.0", "urn:ietf:params:netconf:capability:xpath:1.0",
    "urn:ietf:params:netconf:capability:notification:1.0", "urn:ietf:params:netconf:capability:interleave:1.0",
    "urn:ietf:params:netconf:capability:with-defaults:1.0"]
BASE_URIS = {'urn:ietf:params:netconf:base:1.0', 'urn:ietf:params:netconf:base:1.1',
             'urn:ietf:params:xml:ns:netconf:base:1.0', 'urn:ietf:params:xml:ns:netconf:base:1.1'}


class C05(SessionCheck):
    ID = 'C05'
    PROPS_MODULE = 'NcVerif.Props.C05'
    FLAVOR_WEIGHTS = {'normal': 3, 'late-ready': 3, 'hello-timeout': 2, 'fault': 1, 'odd': 1}
    N_QUICK = 140
    RULE = ('lock-step runs of the real _post_connect + worker over 3 transports x all 14 profiles x user extra capabilities: server '
            'capability lists with/without either base version in either URN form, parameters, duplicates, empty <capability/>, missing '
            'session-id; server hello arriving before / after / split across the client hello being written (SSH channel not ready), '
            'arbitrary hello segmentation, hello timeout, session death before the hello; the hello taken off the wire is parsed with '
            'xml.etree. Plus the regenerated per-profile capability table. Server hellos with odd capability query parts, comments / PIs, a 7 kB banner or 120 prefix declarations before / on the root; SSH and Unix connects with the Junos streaming filter option. Non-trivial = history >= 8 commands.')

    def gen_tables(self, log):
        from gen import profiles
        r = profiles.generate(REPO, LEAN)
        log['gen_profiles_rows'] = r['rows']
        self._profiles = r['profiles']

    def extra_coverage(self):
        d = SessionCheck.extra_coverage(self)
        d['gen_tables'] = {'Gen/Profiles.lean': len(getattr(self, '_profiles', []))}
        return d

    def e2e_cases(self, rng, tier):
        # the public entry points manager.connect_uds / connect_tls / connect_ssh with user-supplied extra capabilities (nc_params),
        # every profile on the Unix transport, a rotating subset on TLS and SSH; server with and without base:1.1
        out = []
        profs = list(SG.PROFILES)
        for i, pf in enumerate(profs):
            trs = ['unix'] + ([['tls', 'ssh'][i % 2]] if (tier == 'thorough' or i % 5 == 0) else [])
            for tr in trs:
                extras = [['urn:example:extra:1.0'], ['urn:example:extra:1.0', 'urn:example:other:2.0?x=1'], []][(i + len(tr)) % 3]
                out.append({'kind': 'connect', 'sc': {'transport': tr, 'profile': pf, 'extras': extras, 'server11': (i % 3 != 1)}})
        # profile OPTIONS that change how the session reads (Junos streaming filter) and hellos that are long before their root element
        # starts / whose root start tag is long: the hello exchange is the same
        out.append({'kind': 'connect', 'sc': {'transport': 'ssh', 'profile': 'junos', 'device_params': {'use_filter': True}, 'extras': [], 'server11': True}})
        out.append({'kind': 'connect', 'sc': {'transport': 'unix', 'profile': 'junos', 'device_params': {'use_filter': True}, 'extras': [], 'server11': False}})
        for i, shape in enumerate(['banner', 'prefixes', 'pi', 'banner']):
            out.append({'kind': 'connect', 'sc': {'transport': ['unix', 'ssh', 'tls', 'unix'][i] if tier == 'thorough' else 'unix', 'profile': ['default', 'nexus', 'default', 'junos'][i],
                                                  'extras': [], 'server11': i % 2 == 0, 'hello_shape': shape}})
        # two sessions of one process whose servers send the SAME hello; the application edits the first session's view of the server
        # capabilities (the documented add / remove) before the second one connects: the second reports ITS server's hello
        for i in range(2 if tier == 'quick' else 8):
            out.append({'kind': 'twosess', 'server11': i % 2 == 0, 'edit': [['remove-b11', 'add'], ['add'], ['remove-all']][i % 3]})
        # arrival timing of the server's <hello> over a real SSH transport: never sent, sent in pieces that complete well inside the
        # timeout, and dripped for ever without its end (connect must fail within the timeout, not hang)
        # the <hello> document itself, for every profile: HelloHandler.build vs the model's serialize (helloTree), read back by an
        # independent parser; capability lists = the profile's own list with nasty extras spliced in
        nasty = ['urn:x?a=1&b=<2>', 'http://example.com/yang?module=m&revision=2020-01-01&features=a,b', 'urn:q?"quoted"=\'s\'', 'ünï:cap:★', 'urn:x:]]>',
                 'a', 'urn:with space', 'urn:tab\there', 'urn:nl\nline']
        for i, pf in enumerate(profs):
            for rep in range(2):
                out.append({'kind': 'hello-doc', 'profile': pf, 'extras': rng.sample(nasty, rng.randint(0, 4))})
        for what in ('silent', 'slow-complete', 'drip'):
            # (the slow-but-complete hello takes ~0.3 s; its timeout is generous so that a loaded machine cannot turn it into an alarm)
            out.append({'kind': 'hello-timing', 'sc': {'transport': 'ssh', 'profile': 'default', 'what': what, 'timeout': 6.0 if what == 'slow-complete' else 1.2}})
        return out

    def run_hello_timing(self, case):
        import time
        from impl import e2e, fakeserver as FS
        sc = case['sc']
        srv = e2e.make_server(dict(sc), None, send_hello=False)
        head = '<hello xmlns="%s"><capabilities><capability>%s</capability>' % (FS.BASE_NS, FS.B10)
        tail = '</capabilities><session-id>7</session-id></hello>'

        def serve():
            try:
                if sc['what'] == 'slow-complete':
                    text = (head + tail).encode() + b']]>]]>'
                    for i in range(0, len(text), 40):
                        srv.send_bytes(text[i:i + 40])
                        time.sleep(0.03)
                    while not srv.closed and srv._recv():
                        pass
                elif sc['what'] == 'drip':
                    srv.send_bytes(head.encode())
                    i = 0
                    while not srv.closed and i < 400:
                        srv.send_bytes(b'<capability>urn:example:cap:%d</capability>' % i)
                        i += 1
                        time.sleep(0.15)
                else:
                    t_end = time.time() + 30
                    while not srv.closed and time.time() < t_end:
                        time.sleep(0.05)
            except Exception:
                pass
            finally:
                srv.close()
                srv.done.set()
        srv.serve = serve
        res = {}
        try:
            st, val, dt = FS.run_with_timeout(lambda: e2e.connect(srv, sc, timeout=sc['timeout']), sc['timeout'] + 12)
            res['connect'] = st if st != 'exc' else 'exc:' + type(val).__name__
            res['dt'] = dt
            if st == 'ok':
                res['sid'] = val.session_id
                try:
                    val._session.close()
                except Exception:
                    pass
        finally:
            srv.cleanup()
        return res

    def run_hello_doc(self, case):
        from ncclient import manager
        from ncclient.transport.session import HelloHandler
        dh = manager.make_device_handler({'name': case['profile']})
        dh.add_additional_netconf_params({'capabilities': list(case['extras'])})
        caps = list(dh.get_capabilities())
        xml = HelloHandler.build(caps, dh)
        body = xml[xml.index('?>') + 2:] if xml.startswith('<?xml') else xml
        root = ET.fromstring(xml.encode('utf-8'))
        read = [c.text or '' for c in root.iter() if c.tag.endswith('}capability') or c.tag == 'capability']
        case['_caps'], case['_pfx'] = caps, ('nc:' if body.startswith('<nc:') else '')      # inputs of the model line for this case
        return {'caps': caps, 'ser': body, 'read': read, 'root': root.tag}

    def run_twosess(self, case):
        from impl import fakeserver as FS
        from ncclient import manager
        from ncclient.xml_ import new_ele
        import time
        caps = [c for c in FS.STD_CAPS if case['server11'] or c != B11]
        s1, s2 = FS.UnixServer(caps=list(caps)), FS.UnixServer(caps=list(caps))
        m1 = m2 = None
        try:
            m1 = manager.connect_uds(path=s1.path, timeout=5)
            sc = m1.server_capabilities
            for e in case['edit']:
                if e == 'add':
                    sc.add('urn:example:added-by-the-application:1.0')
                elif e == 'remove-b11':
                    sc.remove(B11)
                else:
                    for u in list(sc):
                        sc.remove(u)
            m2 = manager.connect_uds(path=s2.path, timeout=5)
            res = {'caps2': list(m2.server_capabilities), 'sent': caps, 'sid2': m2.session_id}
            m2.async_mode = True
            m2.dispatch(new_ele('get'))
            t0 = time.time()
            while len(s2.requests) < 1 and time.time() - t0 < 3:
                time.sleep(0.01)
            rx = bytes(s2.rx)
            i = rx.find(b']]>]]>')
            res['second_frame_chunked'] = (rx[i + 6:i + 8] == b'\n#') if i >= 0 else None
            res['n_requests'] = len(s2.requests)
            return res
        except Exception as e:
            return {'exc': type(e).__name__ + ': ' + str(e)[:80]}
        finally:
            for m in (m1, m2):
                try:
                    if m is not None:
                        m._session.close()
                except Exception:
                    pass
            s1.cleanup()
            s2.cleanup()

    def run_impl(self, case):
        if case.get('kind') == 'twosess':
            return self.run_twosess(case)
        if case.get('kind') == 'hello-doc':
            return self.run_hello_doc(case)
        if case.get('kind') == 'hello-timing':
            self.stats['hello_timing'] = self.stats.get('hello_timing', 0) + 1
            return self.run_hello_timing(case)
        if case.get('kind') != 'connect':
            return SessionCheck.run_impl(self, case)
        from impl import e2e, fakeserver as FS
        sc = case['sc']
        self.stats['connect_e2e'] = self.stats.get('connect_e2e', 0) + 1
        caps = [c for c in FS.STD_CAPS if sc['server11'] or c != B11]
        kws = {}
        if sc.get('hello_shape'):
            body = '<capabilities>%s</capabilities><session-id>4711</session-id>' % ''.join('<capability>%s</capability>' % c.replace('&', '&amp;') for c in caps)
            if sc['hello_shape'] == 'banner':
                kws['hello_text'] = '<!-- %s -->\n<hello xmlns="%s">%s</hello>' % ('device banner: authorised use only. ' * 200, FS.BASE_NS, body)
            elif sc['hello_shape'] == 'pi':
                kws['hello_text'] = '<?xml version="1.0" encoding="UTF-8"?>\n%s<hello xmlns="%s">%s</hello>' % ('<?vendor %s?>\n' % ('x' * 900) * 6, FS.BASE_NS, body)
            else:
                kws['hello_text'] = '<hello xmlns="%s"%s>%s</hello>' % (FS.BASE_NS, ''.join(' xmlns:m%d="urn:example:yang:module-%d:with-a-rather-long-namespace-name"' % (k, k) for k in range(120)), body)
        srv = e2e.make_server(dict(sc, server_caps=caps), None, **kws)
        res = {'connect': 'ok', 'transport': sc['transport']}
        m = None
        try:
            kw = {'nc_params': {'capabilities': list(sc['extras'])}} if sc['extras'] else {}
            m = e2e.connect(srv, sc, timeout=5, **kw)
            res['client_caps'] = list(m.client_capabilities)
            res['server_caps'] = list(m.server_capabilities)
            res['sid'] = m.session_id
            m.async_mode = True
            from ncclient.xml_ import new_ele
            m.dispatch(new_ele('get'))
            import time
            t0 = time.time()
            while len(srv.requests) < 1 and time.time() - t0 < 3:
                time.sleep(0.01)
            res['rx'] = bytes(srv.rx).hex()
            res['hello'] = srv.client_hello
        except Exception as e:
            res['connect'] = 'exc:' + type(e).__name__ + ':' + str(e)[:80]
        finally:
            try:
                if m is not None:
                    m._session.close()
            except Exception:
                pass
            srv.close()
            srv.cleanup()
        res['srv_caps_sent'] = caps
        return res

    def model_lines(self, case):
        if case.get('kind') == 'hello-doc':
            from core import hexs, hlist
            if '_caps' not in case or any(c == '' for c in case['_caps']):
                return []
            return ['xd hello %s %s' % (hexs(case['_pfx']), hlist(hexs(c) for c in case['_caps']))]
        if case.get('kind') in ('connect', 'hello-timing', 'twosess'):
            return []
        return SessionCheck.model_lines(self, case)

    def model_obs(self, case, outs):
        if case.get('kind') == 'hello-doc':
            t = outs[0].split(' ')
            from core import unhlist
            return {'ser': unhexs(t[0]), 'read': None if t[1] == 'none' else [None if x == '-' else unhexs(x) for x in unhlist(t[1])]}
        if case.get('kind') in ('connect', 'hello-timing', 'twosess'):
            return None
        return SessionCheck.model_obs(self, case, outs)

    def compare(self, case, io, mo):
        if case.get('kind') == 'hello-doc':
            if mo is None:
                return None
            if io['ser'] != mo['ser']:
                return '<hello> differs: HelloHandler.build %r, model %r' % (io['ser'][:300], mo['ser'][:300])
            if io['read'] != mo['read']:
                return 'capabilities read back differ: expat %r, model %r' % (io['read'], mo['read'])
            return None
        if case.get('kind') in ('connect', 'hello-timing', 'twosess'):
            return None
        return SessionCheck.compare(self, case, io, mo)

    def nontrivial(self, case, io):
        if case.get('kind') in ('hello-timing', 'hello-doc', 'twosess'):
            return True
        if case.get('kind') == 'connect':
            return io.get('connect') == 'ok'
        return SessionCheck.nontrivial(self, case, io)

    def oracle_connect(self, case, io):
        sc = case['sc']
        tag = '%s/%s' % (sc['transport'], sc['profile'])
        if io['connect'] != 'ok':
            return ('C05:e2e-connect', 'connect over %s failed: %s' % (tag, io['connect']))
        ccaps = io['client_caps']
        prof = next((p for p in getattr(self, '_profiles', []) if p['name'] == sc['profile']), None)
        if not (set(ccaps) & BASE_URIS):
            return ('C05:no-base-capability@' + sc['profile'], 'client capabilities contain no base URI (%s)' % tag)
        if sc['profile'] == 'default' and ccaps != DOC_DEFAULT + sc['extras']:
            return ('C05:default-capabilities', 'default profile over %s with extras %r advertises %r' % (sc['transport'], sc['extras'], ccaps))
        if prof and prof['uses'] and ccaps != prof['prefix'] + sc['extras'] + prof['suffix']:
            return ('C05:user-capabilities', '%s: manager reports %r, expected the profile list with the user additions %r' % (tag, ccaps, sc['extras']))
        try:
            root = ET.fromstring(io['hello'])
        except Exception as e:
            return ('C05:hello-malformed', '%s: first frame is not well-formed XML: %r' % (tag, e))
        w = bytes.fromhex(io['rx'])
        if w[:2] == b'\n#' or w.find(DELIM10) < 0:
            return ('C05:hello-not-eom-framed', '%s: the client <hello> was not sent in end-of-message framing: %r' % (tag, w[:24]))
        sent = [c.text for c in root.iter() if c.tag.endswith('capability')]
        if sent != ccaps:
            return ('C05:hello-capabilities', '%s: <hello> lists %r, manager reports %r' % (tag, sent, ccaps))
        rest = w[w.find(DELIM10) + len(DELIM10):]
        want11 = sc['server11'] and (B11 in ccaps)
        payloads, status = (decode11 if want11 else decode10)(rest)
        if status.startswith('bad') or not payloads:
            return ('C05:post-hello-framing', '%s: the request after the hello is not in %s framing: %r' % (tag, '1.1' if want11 else '1.0', rest[:40]))
        if list(io['server_caps']) != list(dict.fromkeys(io['srv_caps_sent'])):
            return ('C05:server-capabilities', '%s: server_capabilities %r, server sent %r' % (tag, io['server_caps'], io['srv_caps_sent']))
        if str(io['sid']) != '4711':
            return ('C05:session-id', '%s: session_id %r, server said 4711' % (tag, io['sid']))
        return None

    def oracle(self, case, io):
        if case.get('kind') == 'hello-doc':
            if io['root'] not in ('{%s}hello' % BASE_NS,):
                return ('C05:first-frame-not-hello', 'HelloHandler.build made <%s>' % io['root'])
            if io['read'] != io['caps']:
                return ('C05:hello-capabilities', '%s: an independent parser reads %r out of the <hello>, the profile reports %r' % (case['profile'], io['read'], io['caps']))
            prof = next((p for p in getattr(self, '_profiles', []) if p['name'] == case['profile']), None)
            if (prof is None or prof['uses']) and not all(x in io['caps'] for x in case['extras']):
                return ('C05:user-capabilities', '%s: user additions %r missing from %r' % (case['profile'], case['extras'], io['caps']))
            return None
        if case.get('kind') == 'twosess':
            if 'exc' in io:
                return ('C05:e2e-connect', 'two sessions with the same server hello: %s' % io['exc'])
            if io['caps2'] != io['sent'] or str(io['sid2']) != '4711':
                return ('C05:server-capabilities-of-another-session', 'after the application edited the first session\'s server capabilities (%s), a second session whose server sent the same '
                        'hello reports %s; its server sent %s' % (case['edit'], [c for c in io['caps2'] if c not in io['sent']] + ['(missing) ' + c for c in io['sent'] if c not in io['caps2']], len(io['sent'])))
            if io['second_frame_chunked'] is not None and io['second_frame_chunked'] != case['server11']:
                return ('C05:framing-after-hello', 'second session: server advertised base:1.1=%s, the first request was %s' % (case['server11'], 'chunked' if io['second_frame_chunked'] else 'end-of-message framed'))
            return None
        if case.get('kind') == 'hello-timing':
            sc = case['sc']
            if sc['what'] == 'slow-complete':
                if io.get('connect') != 'ok' or str(io.get('sid')) != '7':
                    return ('C05:slow-hello-rejected', 'a <hello> arriving in pieces well inside the timeout gave %s' % io.get('connect'))
                return None
            if not str(io.get('connect', '')).startswith('exc:'):
                return ('C05:connect-hangs', 'no complete <hello> ever arrived (%s server), connect(timeout=%.1f) gave %s after %.1f s' % (
                    sc['what'], sc['timeout'], io.get('connect'), io.get('dt', -1)))
            if io.get('dt', 0) > sc['timeout'] + 8:
                return ('C05:connect-hangs', 'connect(timeout=%.1f) against a %s server failed only after %.1f s' % (sc['timeout'], sc['what'], io['dt']))
            return None
        if case.get('kind') == 'connect':
            return self.oracle_connect(case, io)
        info = case.get('info') or {}
        obs = io['obs']
        if not obs:
            return None
        last = obs[-1]
        ccaps = io['client_caps']
        # profile table facts on the implementation itself
        if not (set(ccaps) & BASE_URIS):
            return ('C05:no-base-capability@' + case['profile'], 'client capabilities of %s contain no base URI' % case['profile'])
        if case['profile'] == 'default' and ccaps != DOC_DEFAULT + (case.get('extra_caps') or []):
            return ('C05:default-capabilities', 'default profile advertises %r' % ccaps)
        w = bytes.fromhex(last['wire'])
        i = w.find(DELIM10)
        if w and i < 0:
            # the first frame is not (yet) terminated by the 1.0 delimiter: fine only if it is a prefix of the hello in 1.0 framing
            if w[:1] == b'\n':
                return ('C05:hello-not-eom-framed', 'the first bytes on the wire are a 1.1 chunk header: %r' % w[:24])
            return None
        if not w:
            return None
        hello = w[:i]
        if hello[:2] == b'\n#':
            return ('C05:hello-not-eom-framed', 'the client <hello> was sent in chunked framing')
        try:
            root = ET.fromstring(hello.decode('utf-8'))
        except Exception as e:
            return ('C05:hello-malformed', 'first frame on the wire is not well-formed XML: %r' % (e,))
        if root.tag not in ('{%s}hello' % BASE_NS, 'hello'):
            return ('C05:first-frame-not-hello', 'first frame on the wire is <%s>' % root.tag)
        sent_caps = [c.text for c in root.iter() if c.tag.endswith('capability')]
        if sent_caps != ccaps:
            return ('C05:hello-capabilities', '<hello> lists %r, manager reports %r' % (sent_caps, ccaps))
        # negotiation
        scaps = info.get('server_caps') or []
        if io['conn_result'] == 'ok':
            want11 = (B11 in scaps) and (B11 in ccaps)
            if last['base11'] != want11:
                return ('C05:negotiation', 'chunked framing %s although server %s and client %s base:1.1' % (
                    last['base11'], 'has' if B11 in scaps else 'lacks', 'has' if B11 in ccaps else 'lacks'))
            rest = w[i + len(DELIM10):]
            payloads, status = (decode11 if want11 else decode10)(rest)
            if status.startswith('bad'):
                return ('C05:post-hello-framing', 'frames after the hello are not in the negotiated framing (%s)' % ('1.1' if want11 else '1.0'))
            if rest and not want11 and rest[:2] == b'\n#':
                return ('C05:post-hello-framing', 'chunked frame although base:1.1 was not negotiated')
            # session id / capabilities are those of the server's hello
            texts = info.get('server_texts') or []
            hello_srv = next((t for t in texts if t.startswith('<hello')), None)
            if hello_srv:
                r = ET.fromstring(hello_srv)
                sid = [c.text for c in r.iter() if c.tag.endswith('session-id')]
                caps = [c.text for c in r.iter() if c.tag.endswith('capability')]
                got = [unhexs(t) for t in last['caps'].split(',')] if last['caps'] not in ('-', '_') else []
                if got != list(dict.fromkeys(caps)):
                    return ('C05:server-capabilities', 'server_capabilities %r, server hello listed %r' % (got, caps))
                if sid and unhexs(last['sid']) != sid[0]:
                    return ('C05:session-id', 'session_id %r, server said %r' % (unhexs(last['sid']), sid[0]))
        else:
            # failed connect: must have FAILED (not hung): conn_result is set by the connecting thread
            if io['conn_result'] is None and info.get('finished'):
                return ('C05:connect-hangs', 'connect neither returned nor raised')
            # a VALID server hello (judged by an independent parser: well-formed, <hello> in the base namespace or none, a session-id,
            # every <capability> non-empty) that was completely read, with no fault injected, must not make connect fail
            texts = info.get('server_texts') or []
            hello_srv = next((t for t in texts if t.startswith('<hello')), None)
            if hello_srv and io['conn_result'] not in (None, 'ok') and case['flavor'] in ('normal', 'late-ready') and not info.get('faults') \
                    and info.get('finished') and not info.get('expired'):
                try:
                    r = ET.fromstring(hello_srv)
                    caps = [c.text for c in r.iter() if c.tag.endswith('capability')]
                    sid = [c.text for c in r.iter() if c.tag.endswith('session-id')]
                    valid = r.tag in ('{%s}hello' % BASE_NS, 'hello') and all(caps) and len(sid) == 1 and bool(sid[0])
                except Exception:
                    valid = False
                if valid:
                    return ('C05:valid-hello-rejected', 'the server sent a valid <hello> (%r...) and nothing went wrong on the transport, yet connect gave %s' % (hello_srv[:120], io['conn_result']))
        return None


CHECK = C05
