"""C13 — the lock context manager pairs lock and unlock."""
import re

from core import Check

BASE_NS = 'urn:ietf:params:xml:ns:netconf:base:1.0'
STORES = ['running', 'candidate', 'startup', 'x-é']


def gen_prog(rng, depth=0):
    r = rng.random()
    if depth >= 4 or r < 0.2:
        return rng.choice([['S'], ['Q', rng.randint(1, 9)], ['Q', rng.randint(1, 9)], ['R', rng.randint(1, 3)]])
    if r < 0.55:
        return [';', gen_prog(rng, depth + 1), gen_prog(rng, depth + 1)]
    return ['L', rng.randrange(len(STORES)), gen_prog(rng, depth + 1)]


def size(p):
    return 1 + sum(size(x) for x in p[1:] if isinstance(x, list))


def tokens(p):
    if p[0] == 'S':
        return ['S']
    if p[0] == 'Q':
        return ['Q%d' % p[1]]
    if p[0] == 'R':
        return ['R%d' % p[1]]
    if p[0] == ';':
        return [';'] + tokens(p[1]) + tokens(p[2])
    return ['L%d' % p[1]] + tokens(p[2])


class BodyError(Exception):
    pass


def execute(m, p, ctxs=None):
    """Run the program as REAL Python: `with m.locked(...)`, requests through the manager, raise.
    With `ctxs` (a dict) the context object of a datastore is created once and ENTERED AGAIN for every later `with` on that
    datastore (`ctx = m.locked(t)` kept by the application): each entry must still be a full lock / unlock bracket."""
    from ncclient.xml_ import new_ele
    if p[0] == 'S':
        return
    if p[0] == 'Q':
        m.rpc(new_ele('q%d' % p[1]))
        return
    if p[0] == 'R':
        # bodies fail in different ways: application error, a TransportError from elsewhere, a timeout of a nested call
        from ncclient.transport.errors import TransportError
        from ncclient.operations.errors import TimeoutExpiredError
        e = {1: BodyError, 2: TransportError, 3: TimeoutExpiredError}[p[1]](p[1])
        e.verif_kind = p[1]
        raise e
    if p[0] == ';':
        execute(m, p[1], ctxs)
        execute(m, p[2], ctxs)
        return
    if ctxs is None:
        ctx = m.locked(STORES[p[1]])
    else:
        if p[1] not in ctxs:
            ctxs[p[1]] = m.locked(STORES[p[1]])
        ctx = ctxs[p[1]]
    with ctx:
        execute(m, p[2], ctxs)


ERROR_TAGS = ['lock-denied', 'in-use', 'resource-denied', 'access-denied', 'operation-failed', 'data-missing', 'operation-not-supported', 'too-big']


def reply(mid, ans, ev='m', k=0):
    # whatever the error-tag (RFC 6241 Appendix A) and error-type: an <rpc-error> of severity error is a refusal
    tag = ERROR_TAGS[k % len(ERROR_TAGS)]
    typ = ['protocol', 'application', 'rpc', 'transport'][(k // 3) % 4]
    # RFC 6241 Appendix A: lock-denied carries the session-id of the lock holder in error-info - this session's own id (the stub session
    # is session '1': the lock was taken earlier on the same session), 0 (not a NETCONF session), another session, or nothing
    info = ['', '<error-info><session-id>1</session-id></error-info>', '<error-info><session-id>0</session-id></error-info>',
            '<error-info><session-id>4711</session-id></error-info>'][(k * 3 + k // 8) % 4]      # every tag meets every holder
    one = lambda sev: '<rpc-error><error-type>%s</error-type><error-tag>%s</error-tag><error-severity>%s</error-severity><error-message>%s</error-message>%s</rpc-error>' % (typ, tag, sev, ev, info)
    if ans == 'o':
        body = '<ok/>'
    else:
        # 'e' error, 'w' warning, 'x' = warning then error, 'y' = error then warning (both count as an error answer)
        body = {'e': one('error'), 'w': one('warning'), 'x': one('warning') + one('error'), 'y': one('error') + one('warning')}[ans]
    if k % 3 == 2:
        # the same document with the base namespace bound to a prefix (as many servers write it)
        return '<nc:rpc-reply xmlns:nc="%s" message-id="%s">%s</nc:rpc-reply>' % (BASE_NS, mid, body.replace('<', '<nc:').replace('<nc:/', '</nc:'))
    return '<rpc-reply message-id="%s" xmlns="%s">%s</rpc-reply>' % (mid, BASE_NS, body)


def server_event(req):
    m = re.search(r'<(?:\w+:)?(lock|unlock)\b[^>]*>\s*<(?:\w+:)?target[^>]*>\s*<(?:\w+:)?([^\s/>]+)', req)
    if m:
        return '%s:%d' % (m.group(1), STORES.index(m.group(2)))
    m = re.search(r'<(?:\w+:)?q(\d+)', req)
    return 'req:%s' % m.group(1) if m else 'other'


class C13(Check):
    ID = 'C13'
    PROPS_MODULE = 'NcVerif.Props.C13'
    RULE = ('random bodies (requests, raise, sequencing, nested lock contexts on 4 datastore names incl. non-ASCII, depth <= 4) run as REAL '
            '`with m.locked(t):` blocks through Manager/LockContext/RPC on a stub session whose server answers each request by script '
            '(ok / rpc-error severity error / warning-only, with the RFC 6241 error-tags and error-types rotating), in 30 % of the runs with ONE context object per datastore entered again for every later `with`; the sequence of requests seen by the server and the exception seen by the '
            'caller are compared with the model and with the property. lock-denied error-info naming this session / 0 / another session / none, body exceptions rotating over RPCError, TimeoutExpiredError, TransportError, KeyboardInterrupt, Exception. Non-trivial = at least one lock context; distinct by (program, answers).')
    TRUST = ['the Python `with` statement semantics (enter/exit protocol) as modelled in Model/Lock.lean']

    def cases(self, rng, tier):
        n = 1200 if tier == 'quick' else 30000
        out = [{'prog': ['L', 0, [';', ['Q', 1], ['R', 1]]], 'ans': [], 'mode': 1},
               {'prog': ['L', 0, ['Q', 1]], 'ans': ['e'], 'mode': 1},
               {'prog': ['L', 1, ['L', 0, ['R', 2]]], 'ans': ['o', 'w', 'o', 'e'], 'mode': 1},
               # the manager's own raise mode must not reach <lock>/<unlock>: warning-only answers under ALL, refusal under NONE
               {'prog': ['L', 1, ['Q', 1]], 'ans': ['w', 'o', 'w'], 'mode': 2},
               {'prog': ['L', 0, ['Q', 1]], 'ans': ['e'], 'mode': 0},
               # nested contexts on different datastores
               {'prog': ['L', 0, ['L', 1, ['Q', 1]]], 'ans': [], 'mode': 2},
               {'prog': ['L', 0, ['L', 1, ['R', 1]]], 'ans': [], 'mode': 2},
               # one context object entered twice: granted, then refused
               {'prog': [';', ['L', 0, ['Q', 1]], ['L', 0, ['Q', 2]]], 'ans': ['o', 'o', 'o', 'e'], 'mode': 2, 'reuse': True}]
        for _ in range(n):
            p = gen_prog(rng)
            k = size(p) * 2
            ans = [rng.choice('ooooewwxy') for _ in range(rng.randint(0, k))]
            # the manager's raise mode: its default ALL most of the time (the mode users get), ERRORS, NONE
            out.append({'prog': p, 'ans': ans, 'mode': rng.choice([2, 2, 1, 0]), 'reuse': rng.random() < 0.3, 'tagseed': rng.randrange(64)})
        return out

    def search(self, tier, rng, broken):
        return self.cases(rng, 'quick') * 3

    def run_impl(self, case):
        from impl.rpcstub import make_manager
        from ncclient.operations import RPCError
        seen = []

        def responder(req, mid):
            ev = server_event(req)
            seen.append(ev)
            a = case['ans'][len(seen) - 1] if len(seen) - 1 < len(case['ans']) else 'o'
            return reply(mid, a, ev, len(seen) + case.get('tagseed', 0))
        m, s, dh = make_manager(responder=responder, raise_mode=case.get('mode', 1))   # governs the body's own requests only
        exc = '-'
        try:
            execute(m, case['prog'], {} if case.get('reuse') else None)
        except RPCError as e:
            exc = 'rpc:' + str(e.message).split('\n')[0].split(': ')[-1]
        except Exception as e:
            if hasattr(e, 'verif_kind'):
                exc = 'body:%d' % e.verif_kind
            else:
                exc = 'other:' + type(e).__name__
        return {'trace': seen, 'exc': exc}

    def model_lines(self, case):
        ans = ['e' if a in 'xy' else a for a in case['ans']]
        return ['lk run %s %s %s' % ({0: 'none', 1: 'errors', 2: 'all'}[case.get('mode', 1)], ','.join(ans) or '_', ' '.join(tokens(case['prog'])))]

    def model_obs(self, case, outs):
        t, x = outs[0].split(' ')
        return {'trace': [] if t == '_' else t.split(','), 'exc': x}

    def oracle(self, case, io):
        """The property, evaluated on what the server saw: per lock context, by replaying the program structure."""
        tr = io['trace']
        if io['exc'].startswith('other:'):
            return ('C13:unexpected-exception', io['exc'])
        # stack discipline: every unlock matches the latest open granted lock of the same datastore; refused locks open nothing
        ans = case['ans']
        stack = []
        for i, ev in enumerate(tr):
            a = ans[i] if i < len(ans) else 'o'
            kind, _, arg = ev.partition(':')
            if kind == 'lock':
                if a not in 'exy':
                    stack.append(arg)
            elif kind == 'unlock':
                if not stack or stack[-1] != arg:
                    return ('C13:unbalanced-unlock', 'unlock of %s without a matching lock: %s' % (arg, tr))
                stack.pop()
        if stack:
            return ('C13:missing-unlock', 'lock(s) on %s never released: %s' % (stack, tr))
        # the statement itself, read as a reference interpreter of the program (independent of the model): every `with m.locked(t)`
        # that is reached sends <lock> for t before its body; refused -> no body, no unlock; granted -> body, then <unlock> for t once
        exp, exc = [], [None]

        def answer():
            i = len(exp) - 1
            return ans[i] if i < len(ans) else 'o'

        def ref(p):
            # returns True when an exception is propagating
            if p[0] == 'S':
                return False
            if p[0] == 'Q':
                exp.append('req:%d' % p[1])
                a = answer()
                mode = case.get('mode', 1)
                raised = (mode == 2 and a != 'o') or (mode == 1 and a in 'exy')
                if raised:
                    exc[0] = 'rpc'
                return raised
            if p[0] == 'R':
                exc[0] = 'body:%d' % p[1]
                return True
            if p[0] == ';':
                return ref(p[1]) or ref(p[2])
            exp.append('lock:%d' % p[1])
            if answer() in 'exy':
                exc[0] = 'rpc'
                return True
            r = ref(p[2])
            exp.append('unlock:%d' % p[1])
            if answer() in 'exy':
                exc[0] = 'rpc'      # the statement is silent on a refused unlock; only the trace is checked then
                return True
            return r
        ref(case['prog'])
        if tr != exp:
            k = next((i for i in range(min(len(tr), len(exp))) if tr[i] != exp[i]), min(len(tr), len(exp)))
            return ('C13:trace-differs-from-statement', 'server saw %s, the statement requires %s (first difference at request %d; manager raise_mode=%s)'
                    % (tr, exp, k, case.get('mode', 1)))
        if exc[0] and exc[0].startswith('body:') and io['exc'] != exc[0]:
            return ('C13:body-exception-not-propagated', 'the body raised %s, the caller saw %s' % (exc[0], io['exc']))
        if exc[0] is None and io['exc'] != '-':
            return ('C13:spurious-exception', 'nothing raised according to the statement, the caller saw %s' % io['exc'])
        # a refused lock must be the caller's exception and end the (innermost enclosing) progress: checked against the model by correspondence
        return None

    def nontrivial(self, case, io):
        return any(e.startswith('lock') for e in io['trace'])


CHECK = C13
