"""C09 — capability-gated operations are refused locally when the capability is absent."""
from core import Check, hexs, hlist, unhexs, LEAN, REPO
from oracle import ops_spec as OS

IETF = ['urn:ietf:params:netconf:capability:', 'urn:ietf:params:xml:ns:netconf:capability:']
CAPS = {':candidate': 'candidate:1.0', ':confirmed-commit': 'confirmed-commit:1.1', ':validate': 'validate:1.0', ':validate:1.1': 'validate:1.1',
        ':rollback-on-error': 'rollback-on-error:1.0', ':url': 'url:1.0?scheme=ftp,http', ':notification': 'notification:1.0',
        ':with-defaults': 'with-defaults:1.0?basic-mode=explicit&also-supported=report-all,trim', ':startup': 'startup:1.0', ':xpath': 'xpath:1.0'}
WD_PARAMS = ['?basic-mode=explicit&also-supported=report-all,trim', '?basic-mode=report-all', '?also-supported=trim', '', '?basic-mode=trim&also-supported=explicit',
             '?basic-mode=explicit&also-supported=report-all-tagged,report-all', '?basic-mode=explicit&also-supported=report-all-tagged',
             '?basic-mode=report-all-tagged', '?basic-mode=trim&also-supported=report-all-tagged,explicit']

DECOYS = ['urn:ietf:params:xml:ns:netconf:notification:1.0?module=notifications&revision=2008-07-14',
          'urn:ietf:params:xml:ns:netconf:candidate:1.0', 'urn:ietf:params:netconf:validate:1.1', 'urn:ietf:params:netconf:url:1.0?scheme=ftp',
          'urn:ietf:params:xml:ns:yang:ietf-netconf-with-defaults?module=ietf-netconf-with-defaults&revision=2011-06-01',
          'urn:ietf:params:xml:ns:netconf:confirmed-commit:1.1', 'urn:ietf:params:netconf:rollback-on-error:1.0',
          'http://example.com/netconf:capability:candidate:1.0']

CALLS = [
    ('edit_config', lambda a: dict(config='<config xmlns="urn:ietf:params:xml:ns:netconf:base:1.0"><a xmlns="urn:x"/></config>', target=a['target'],
                                   test_option=a['to'], error_option=a['eo']), {'target': ['running', 'ftp://h/f'], 'to': [None, 'set', 'test-only'], 'eo': [None, 'rollback-on-error', 'stop-on-error']}),
    ('copy_config', lambda a: dict(source=a['source'], target=a['target']), {'source': ['running', 'ftp://h/s'], 'target': ['candidate', 'ftp://h/t']}),
    ('delete_config', lambda a: dict(target=a['target']), {'target': ['startup', 'ftp://h/t']}),
    ('validate', lambda a: dict(source=a['source']), {'source': ['candidate', 'ftp://h/s']}),
    ('commit', lambda a: dict(confirmed=a['confirmed']), {'confirmed': [False, True]}),
    ('cancel_commit', lambda a: {}, {}),
    ('discard_changes', lambda a: {}, {}),
    ('create_subscription', lambda a: {}, {}),
    ('get', lambda a: dict(with_defaults=a['wd']), {'wd': [None, 'explicit', 'trim', ' Report-All ', 'bogus', 'report-all', 'report', 'all', 'tagged', 'explicit,trim', 'rim', '']}),
    ('get_config', lambda a: dict(source=a['source'], with_defaults=a['wd']), {'source': ['running', 'ftp://h/s'], 'wd': [None, 'trim', 'report-all-tagged', 'report-all', 'all-tagged', 'expl']}),
]


def required_of(op, a):
    url = lambda k: [':url'] if '://' in str(a.get(k, '')) else []
    if op == 'edit_config':
        return url('target') + ([':validate'] if a['to'] else []) + ([':validate:1.1'] if a['to'] == 'test-only' else []) + \
            ([':rollback-on-error'] if a['eo'] == 'rollback-on-error' else [])
    if op == 'copy_config':
        return url('target') + url('source')
    if op == 'delete_config':
        return url('target')
    if op == 'validate':
        return [':validate'] + url('source')
    if op == 'commit':
        return [':candidate'] + ([':confirmed-commit'] if a['confirmed'] else [])
    if op == 'cancel_commit':
        return [':candidate', ':confirmed-commit']
    if op == 'discard_changes':
        return [':candidate']
    if op == 'create_subscription':
        return [':notification']
    if op == 'get':
        return []
    if op == 'get_config':
        return url('source')
    return []


def gen_case(rng):
    ci = rng.randrange(len(CALLS))
    op, _, space = CALLS[ci]
    a = {k: rng.choice(v) for k, v in space.items()}
    uris = []
    for short, tail in CAPS.items():
        if rng.random() < 0.6:
            if short == ':with-defaults':
                tail = 'with-defaults:1.0' + rng.choice(WD_PARAMS)
            uris.append(rng.choice(IETF) + tail)
    # look-alikes a YANG-enabled server lists in its hello: module namespaces, not capability URNs
    for d in DECOYS:
        if rng.random() < 0.3:
            uris.append(d)
    rng.shuffle(uris)
    k = rng.random()
    if k < 0.06:
        uris = []                                         # a server whose <hello> lists no capability at all
    elif k < 0.10:
        uris = [u for u in uris if u in DECOYS] or list(DECOYS[:1])        # only module namespaces, no IETF capability
    elif k < 0.14:
        uris = ['urn:ietf:params:netconf:base:1.0']
    return {'kind': 'gate', 'call': ci, 'args': a, 'uris': uris, 'profile': rng.choice(['default', 'junos', 'sros', 'default'])}


class C09(Check):
    ID = 'C09'
    PROPS_MODULE = 'NcVerif.Props.C09'
    RULE = ('(a) the regenerated operation table: every standard and vendor operation x argument shape (incl. junos / sros commit), probed on the '
            'real code with all capabilities and with each asserted capability removed (every row is a case); (b) random subsets of the '
            'relevant server capabilities in both URN forms (incl. the empty list, base-only and module-namespaces-only), with-defaults basic-mode / also-supported variants, x gated calls x profiles, '
            'executed through the real Manager on a stub session: exception class and silence on the wire compared with the model of the gate; '
            '(c) the request builders on random ARGUMENT VALUES (datastore names, URLs, option values, texts) x random capability subsets, compared with Model/Builders (outcome, refusal class and missing capability, request bytes). '
            'Every fourth builder call in asynchronous mode, server capabilities snapshot around each call, blank with-defaults modes, 2-4 threads making their first gated calls on one session at the same instant. Non-trivial = a call with at least one documented dependency; distinct by case.')
    TRUST = ['the catalogue of argument shapes in harness/gen/optable.py (which calls are probed)']

    def gen_tables(self, log):
        from gen import optable
        r = optable.generate(REPO, LEAN)
        self._rows = r['rows']
        log['gen_optable_rows'] = len(r['rows'])

    def cases(self, rng, tier):
        rows = getattr(self, '_rows', [])
        out = [{'kind': 'row', 'i': i, 'key': '%s@%s[%s]%s' % (r['op'], r['profile'], r['shape'], r['capsMode'])} for i, r in enumerate(rows)]
        n = 1500 if tier == 'quick' else 40000
        from cases import builders_gen as BG
        from props import C07 as P7
        # ONE session shared by several threads whose first capability-gated calls start at the same instant, against a server that also
        # advertises a few hundred YANG module capabilities (the decision may not depend on which thread asks first)
        shared = [{'kind': 'shared', 'threads': 2 + i % 3, 'modules': [50, 400, 1500][i % 3], 'b11': i % 2 == 0, 'trial': i} for i in range(24 if tier == 'quick' else 400)]
        return out + [gen_case(rng) for _ in range(n)] + [BG.gen(rng, P7.plain_tree) for _ in range(n // 2)] + shared

    def search(self, tier, rng, broken):
        return [gen_case(rng) for _ in range(20000)]

    def run_impl(self, case):
        if case.get('kind') == 'build':
            from cases import builders_gen as BG
            from props import C07 as P7
            return BG.run_impl(case, P7.plain_build, P7.plain_from_etree)
        if case['kind'] == 'row':
            r = self._rows[case['i']]
            return {k: r.get(k) for k in ('op', 'profile', 'shape', 'args', 'capsMode', 'outcome', 'nsent', 'asserted', 'probedMinus', 'outsider',
                                          'rootNs', 'rootName', 'hasMsgId', 'nOps', 'opNs', 'opName', 'params', 'sentinels', 'enumLeaves')}
        from impl.rpcstub import make_manager
        if case['kind'] == 'shared':
            return self.run_shared(case)
        op, kw, _ = CALLS[case['call']]
        m, s, dh = make_manager(profile=case['profile'], server_caps=case['uris'], raise_mode=0,
                                responder=lambda req, mid: '<rpc-reply message-id="%s" xmlns="urn:ietf:params:xml:ns:netconf:base:1.0"><ok/></rpc-reply>' % mid)
        try:
            getattr(m, op)(**kw(case['args']))
            out = 'ok'
        except Exception as e:
            n = type(e).__name__
            out = 'missing' if n == 'MissingCapabilityError' else ('withdefaults' if n == 'WithDefaultsError' else 'exc:' + n)
        return {'out': out, 'nsent': len(s.sent)}

    def run_shared(self, case):
        import sys
        import threading
        from impl.rpcstub import make_manager
        from gen.optable import ALL_CAPS
        uris = [c for c in ALL_CAPS if case['b11'] or not c.endswith('base:1.1')]
        uris = ['http://example.com/yang/m%d?module=m%d&revision=2020-01-%02d' % (i, i, 1 + i % 28) for i in range(case['modules'])] + uris
        ok = '<rpc-reply message-id="%s" xmlns="urn:ietf:params:xml:ns:netconf:base:1.0"><ok/></rpc-reply>'
        m, s, dh = make_manager(server_caps=uris, raise_mode=0, responder=lambda req, mid: ok % mid)
        calls = [lambda: m.commit(), lambda: m.validate(source='candidate'), lambda: m.discard_changes(),
                 lambda: m.get_config(source='ftp://h/f'), lambda: m.commit(confirmed=True)]
        n = case['threads']
        bar = threading.Barrier(n)
        outs = [None] * n

        def work(i):
            try:
                bar.wait(2)
                calls[(i + case['trial']) % len(calls)]()
                outs[i] = 'ok'
            except Exception as e:
                outs[i] = type(e).__name__ + ': ' + str(e)[:60]
        old = sys.getswitchinterval()
        sys.setswitchinterval(1e-6)
        try:
            ths = [threading.Thread(target=work, args=(i,), daemon=True) for i in range(n)]
            for t in ths:
                t.start()
            for t in ths:
                t.join(10)
        finally:
            sys.setswitchinterval(old)
        return {'outs': outs, 'nsent': len(s.sent)}

    def model_lines(self, case):
        if case.get('kind') == 'shared':
            return []
        if case.get('kind') == 'build':
            from cases import builders_gen as BG
            return [BG.model_line(case)]
        if case['kind'] == 'row':
            return []
        op = CALLS[case['call']][0]
        a = case['args']
        req = required_of(op, a)
        lines = ['ops gate %s %s' % (hlist(hexs(u) for u in case['uris']), hlist(hexs(c) for c in req))]
        if a.get('wd') is not None:
            lines.append('ops wd %s %s' % (hlist(hexs(u) for u in case['uris']), hexs(a['wd'])))
        return lines

    def model_obs(self, case, outs):
        if case.get('kind') == 'build':
            from cases import builders_gen as BG
            return BG.model_obs(outs[0])
        if case['kind'] in ('row', 'shared'):
            return None
        res = 'ok'
        for o in outs:
            t = o.split(' ')[0]
            if t != 'ok':
                res = t
                break
        return {'out': res, 'nsent': 1 if res == 'ok' else 0}

    def compare(self, case, io, mo):
        if case.get('kind') == 'build':
            from cases import builders_gen as BG
            return BG.compare(case, io, mo)
        if mo is None:
            return None
        # junos / sros commit is an override; its gate is the same (candidate, confirmed-commit)
        return None if io == mo else 'impl=%r model=%r' % (io, mo)

    def oracle(self, case, io):
        if case.get('kind') == 'shared':
            bad = [o for o in io['outs'] if o != 'ok']
            if bad or io['nsent'] != case['threads']:
                return ('C09:shared-session-wrong-refusal', '%d threads made their first capability-gated call on one session at the same instant; the server '
                        'advertised everything needed, yet: %s (%d requests sent)' % (case['threads'], bad[:2], io['nsent']))
            return None
        if case.get('kind') == 'build':
            from cases import builders_gen as BG
            return BG.oracle(case, io, 'C09')
        if case['kind'] == 'row':
            v = OS.row_violation(io, ('gating', 'gated-element', 'gating-probe', 'refusal'))
            if v:
                return ('C09:%s:%s' % (v[0], case['key']), v[1])
            return None
        # property directly: refused (missing / with-defaults error) with nothing sent iff a documented dependency is not advertised
        import re
        op = CALLS[case['call']][0]
        a = case['args']
        req = required_of(op, a) + ([':with-defaults'] if a.get('wd') is not None else [])
        have = set()
        for u in case['uris']:
            m = re.match(r'^urn:ietf:params:(?:xml:ns:)?netconf:capability:([^:]*):([^:?]*)', u)
            if m:
                have.add(':' + m.group(1))
                have.add(':%s:%s' % (m.group(1), m.group(2)))
        missing = [c for c in req if c not in have]
        if missing:
            if io['out'] != 'missing' or io['nsent'] != 0:
                return ('C09:not-refused:%s' % op, '%s%r without %s: %s, %d sent' % (op, a, missing, io['out'], io['nsent']))
        else:
            wd = a.get('wd')
            if wd is not None:
                wu = next(u for u in case['uris'] if ':with-defaults:' in u)
                q = dict(p.split('=', 1) for p in wu.split('?', 1)[1].split('&')) if '?' in wu else {}
                modes = ([q['basic-mode']] + (q['also-supported'].split(',') if 'also-supported' in q else [])) if 'basic-mode' in q else None
                want = 'ok' if modes and wd.strip().lower() in modes else 'withdefaults'
            else:
                want = 'ok'
            if io['out'] != want or io['nsent'] != (1 if want == 'ok' else 0):
                return ('C09:wrong-outcome:%s' % op, '%s%r with everything needed advertised: %s (%d sent), expected %s' % (op, a, io['out'], io['nsent'], want))
        return None

    def nontrivial(self, case, io):
        if case.get('kind') == 'shared':
            return True
        if case.get('kind') == 'build':
            from cases import builders_gen as BG
            return bool(BG.required(case))
        if case['kind'] == 'row':
            return bool(io['asserted'])
        op = CALLS[case['call']][0]
        return bool(required_of(op, case['args'])) or case['args'].get('wd') is not None

    def extra_coverage(self):
        return {'gen_tables': {'Gen/OpTable.lean': len(getattr(self, '_rows', []))}}


CHECK = C09
