"""C02 — outbound framing matches the negotiated version under partial writes."""
from props._session import SessionCheck, rpc_states, client_frames, msg_id_of
from core import unhexs, hexb
from oracle.framing_spec import decode10, decode11, DELIM10


class C02(SessionCheck):
    ID = 'C02'
    PROPS_MODULE = 'NcVerif.Props.C02'
    FLAVOR_WEIGHTS = {'normal': 5, 'fault': 2, 'late-ready': 2, 'close': 1}
    RULE = ('lock-step histories over the real Session.run send branch (3 transports x 14 profiles): 1-6 queued requests incl. non-ASCII text, '
            'every _transport_write answered with a random short write (1..n), full write, 0, -1 or an exception, SSH readiness patterns; '
            'the bytes accepted by the transport are decoded by an independent RFC 4742/6242 decoder and compared with the submitted '
            'messages; frame/writeLoop of the model compared with the code on random payloads; a real socket whose peer stops reading in the middle of a 6 MB message (the session must fail). Payloads of 2^k and 2^k +- 1 octets; real sockets: a peer that stops reading in the middle of a 6 MB message; SSH: stderr output of the subsystem between requests. Non-trivial = history >= 8 commands.')

    def cases(self, rng, tier):
        out = SessionCheck.cases(self, rng, tier)
        for _ in range(200 if tier == 'quick' else 5000):
            n = rng.choice([0, 1, 2, 5, 17, 300])
            data = bytes(rng.randrange(256) for _ in range(n))
            script = [rng.choice([1, 2, 3, 7, n or 1, 0, -1, 5000]) for _ in range(rng.randint(0, 8))]
            out.append({'kind': 'write', 'data': data.hex(), 'script': script, 'base11': rng.random() < 0.5})
        # under 1.1 framing ANY octet sequence is payload, also the 1.0 end-of-message marker and chunk-header look-alikes
        for i, d in enumerate([b'<a><!-- ]]>]]> --></a>', b']]>]]>', b'<x k="]]>]]>"/>\n##\n', b'\n#12\n<y/>\n##\n', b'<z>]]>]]>]]>]]></z>']):
            out.append({'kind': 'write', 'data': d.hex(), 'script': [rng.choice([3, 1000, 7])] * 40, 'base11': True})
        # payloads whose UTF-8 length sits on and around powers of two (implementations that cut messages into chunks or blocks
        # meet their boundaries there), written in a few large pieces
        for n in (4095, 4096, 4097, 65535, 65536, 65537, 131072, 196608):
            for b11 in (True, False):
                data = (b'<m>' + b'a' * (n - 7) + b'</m>')
                out.append({'kind': 'write', 'data': data.hex(), 'script': [rng.choice([n + 100, 70000, 4096, 65536])] * 60, 'base11': b11})
        # real sockets: the peer stays connected but stops reading while a message larger than the socket buffers is being written -
        # the transport can accept no more bytes; the session must FAIL (error to the pending request, disconnected), not sit there
        for tr in (['unix', 'tls'] if tier == 'thorough' else ['unix']):
            out.append({'kind': 'stall', 'transport': tr, 'size': 6 * 1024 * 1024, 'timeout': 1.5})
        # SSH: the NETCONF subsystem writes to its stderr (a warning of the server program) between two requests: every message handed to
        # the session afterwards must still reach the wire, and none of those octets may end up in the stream
        for i in range(3 if tier == 'quick' else 24):
            out.append({'kind': 'stderr', 'before': i % 3, 'after': 1 + i % 2, 'octets': [20, 5000, 1][i % 3], 'base11': i % 2 == 0})
        return out

    def run_stall(self, case):
        from impl import e2e
        return e2e.run_stall(case)

    def run_impl(self, case):
        if case.get('kind') == 'stderr':
            from impl import e2e
            return e2e.run_stderr(case)
        if case.get('kind') == 'stall':
            return self.run_stall(case)
        if case.get('kind') == 'write':
            # the real send branch of Session.run on a stub: one queued message, scripted write results
            import io as _io
            import logging
            logging.disable(logging.CRITICAL)
            from ncclient.transport.session import Session, NetconfBase
            from ncclient.capabilities import Capabilities
            import threading
            script = list(case['script'])
            wire = bytearray()
            state = {'more': False}

            class Stop(Exception):
                pass

            class S(Session):
                def __init__(s):
                    Session.__init__(s, Capabilities([]))
                    s._buffer = _io.BytesIO()
                    s._closing = threading.Event()
                    s._connected = True
                    s.errs = []

                def _transport_register(s, sel, ev):
                    def select(timeout=None):
                        raise Stop()
                    sel.select = select

                def _send_ready(s):
                    return True

                def _transport_write(s, data):
                    state.setdefault('frame', bytes(data))
                    if not script:
                        state['more'] = True
                        raise Stop()
                    n = script.pop(0)
                    if n > 0:
                        wire.extend(data[:n])
                    return n

                def _dispatch_error(s, e):
                    s.errs.append(e)

                def close(s):
                    s._connected = False
            s = S()
            text = bytes.fromhex(case['data']).decode('latin-1')
            s._q.put(text)
            if case['base11']:
                s._base = NetconfBase.BASE_11
            s.run()
            from ncclient.transport.errors import SessionCloseError
            closed = any(isinstance(e, SessionCloseError) for e in s.errs)
            return {'wire': bytes(wire).hex(), 'status': 'more' if state['more'] else ('closed' if closed else 'ok'),
                    'frame': state.get('frame', b'').hex()}
        return SessionCheck.run_impl(self, case)

    def model_lines(self, case):
        if case.get('kind') in ('stall', 'stderr'):
            return []
        if case.get('kind') == 'write':
            from oracle.framing_spec import enc10
            payload = bytes.fromhex(case['data']).decode('latin-1').encode('utf-8')
            fr = (b'\n#%d\n' % len(payload) + payload + b'\n##\n') if case['base11'] else payload + DELIM10
            return ['fr frame %d %s' % (1 if case['base11'] else 0, hexb(payload)),
                    'fr write %s %s' % (hexb(fr), ','.join(str(n) for n in case['script']) or '_')]
        return SessionCheck.model_lines(self, case)

    def model_obs(self, case, outs):
        if case.get('kind') in ('stall', 'stderr'):
            return None
        if case.get('kind') == 'write':
            w, st = outs[1].split(' ')
            return {'wire': w[1:], 'status': st, 'frame': outs[0][1:]}
        return SessionCheck.model_obs(self, case, outs)

    def compare(self, case, io, mo):
        if case.get('kind') in ('stall', 'stderr'):
            return None
        if case.get('kind') == 'write':
            if mo is None:
                return None
            if io['status'] == 'more' and mo['status'] == 'more':
                return None if io['frame'] == mo['frame'] else 'frame differs'
            return None if io == mo else 'impl=%r model=%r' % (io, mo)
        return SessionCheck.compare(self, case, io, mo)

    def nontrivial(self, case, io):
        if case.get('kind') in ('stall', 'stderr'):
            return True
        if case.get('kind') == 'write':
            return len(case['script']) >= 2
        return SessionCheck.nontrivial(self, case, io)

    def oracle(self, case, io):
        if case.get('kind') == 'stderr':
            want = case['before'] + case['after']
            if io.get('server_requests') != want or io.get('failed'):
                return ('C02:message-not-written-after-stderr-output', 'SSH: the subsystem wrote %d octets to stderr after request %d of %d (base:1.%d); the server '
                        'then received %s of the %d requests handed to the session; calls: %s' % (case['octets'], case['before'], want, 1 if case['base11'] else 0,
                                                                                               io.get('server_requests'), want, io.get('failed')))
            if io.get('foreign'):
                return ('C02:stderr-octets-in-stream', 'stderr output of the subsystem reached the NETCONF stream: %s' % io['foreign'])
            return None
        if case.get('kind') == 'stall':
            if 'harness_error' in io:
                return ('C02:harness', io['harness_error'])
            if io['connected'] or not io['failed'] or not io['second_failed']:
                return ('C02:stalled-peer-no-error@' + case['transport'], 'the peer stopped reading in the middle of a %d-octet message (connect timeout %.1f s): after %.1f s the '
                        'session is %s, the request being written %s, the request queued behind it %s' % (
                            case['size'], case['timeout'], io['dt'], 'still connected' if io['connected'] else 'disconnected',
                            'failed with ' + str(io['error']) if io['failed'] else 'got no error', 'failed' if io['second_failed'] else 'got no error'))
            return None
        if case.get('kind') == 'write':
            payload = bytes.fromhex(case['data']).decode('latin-1').encode('utf-8')
            fr = (b'\n#%d\n' % len(payload) + payload + b'\n##\n') if case['base11'] else payload + DELIM10
            wire = bytes.fromhex(io['wire'])
            if not fr.startswith(wire):
                return ('C02:wire-not-prefix-of-frame', 'bytes on the wire are not a prefix of the RFC frame of the message')
            if io['status'] == 'ok' and wire != fr:
                return ('C02:truncated-frame', 'the send loop ended normally with %d of %d frame bytes written' % (len(wire), len(fr)))
            bad = any(n <= 0 for n in case['script'][:self._consumed(case, len(fr))])
            if io['status'] == 'ok' and bad:
                return ('C02:write-failure-ignored', 'a write returned <= 0 and the session went on')
            return None
        obs = io['obs']
        if not obs:
            return None
        sent = []       # messages accepted by Session.send, in order (the harness records them through the public send())
        last = obs[-1]
        hello, payloads, status = client_frames(last['wire'], last['base11'])
        want11 = (case.get('info') or {}).get('want11')
        w = bytes.fromhex(last['wire'])
        # 1. the wire must decode: hello in 1.0, then frames in the negotiated framing, the last possibly incomplete
        if w[:2] == b'\n#':
            return ('C02:hello-not-in-eom-framing', 'the first frame (the client <hello>) was written in chunked framing')
        if hello is None:
            return None
        if status.startswith('bad'):
            return ('C02:undecodable-wire', 'client byte stream is not valid %s framing (%s)' % ('1.1' if last['base11'] else '1.0', status))
        # 2. payloads are the requests in creation order (async requests are sent in the order they were queued)
        ids = [msg_id_of(p.decode('utf-8', 'replace')) for p in payloads]
        from impl.session_run import msg_id
        order = [i for i in range(1, len(io['req_status']) + 1) if io['req_status'][i - 1] == 'sent']
        exp = [msg_id(i) for i in order]
        if ids != exp[:len(ids)]:
            return ('C02:reordered-or-lost', 'requests on the wire %s, submitted %s' % (ids, exp))
        for o in obs:
            if o['pc'] in ('select', 'read', 'ready') and False:
                pass
        return None

    @staticmethod
    def _consumed(case, flen):
        left, k = flen, 0
        for n in case['script']:
            if left <= 0:
                break
            k += 1
            if n <= 0:
                break
            left -= n
        return k


CHECK = C02
