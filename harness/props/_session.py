"""Shared base of the session-level checks (C02, C03, C04, C05, C11, C12, C14): lock-step histories
on the real session objects, compared step by step with Model/Session through the Lean driver."""
import random
import re
import threading

from core import Check, unhexs
from cases import session_gen as SG
from oracle.framing_spec import decode10, decode11, DELIM10

_quiet = threading.excepthook


def _hook(args):
    # worker threads of histories that end with a parked worker are torn down with an injected error
    pass


threading.excepthook = _hook

FLAVORS = ['normal', 'fault', 'odd', 'close', 'hello-timeout', 'late-ready']
TRANSPORTS = ['unix', 'tls', 'ssh']


def canon_caps(tok):
    if tok in ('-', '_'):
        return tok
    return ','.join(dict.fromkeys(tok.split(',')))


class SessionCheck(Check):
    CASE_TIMEOUT = 60
    """cases are {'transport','profile','flavor','gseed'[, 'cmds','extra_caps']}."""
    FLAVOR_WEIGHTS = {'normal': 3, 'fault': 2, 'odd': 1, 'close': 1, 'hello-timeout': 1, 'late-ready': 1}
    N_QUICK = 120
    N_THOROUGH = 2500
    TRUST = ['thread scheduling below the transport-call granularity of the lock-step harness (the Lean theorems quantify over '
             'the finer micro-steps of DESIGN.md Appendix A)',
             'queue.Queue FIFO / threading.Lock / Event primitives; uuid4 freshness',
             'the XML library verdicts (parse_root, Notification(raw), HelloHandler.parse) enter the model as the Env parameter, '
             'taken from the real library for every message used']

    def __init__(self):
        self._runs = {}
        self.stats = {'flavors': {}, 'transports': {}, 'profiles': {}, 'commands': 0, 'faults': {}, 'worker_stopped': 0,
                      'replies_delivered': 0, 'notifications_taken': 0}

    # ---- generation ---------------------------------------------------------------------------
    def cases(self, rng, tier):
        n = self.N_QUICK if tier == 'quick' else self.N_THOROUGH
        fl = [f for f, w in self.FLAVOR_WEIGHTS.items() for _ in range(w)]
        out = []
        for i in range(n):
            out.append({'transport': TRANSPORTS[i % 3], 'profile': SG.PROFILES[(i // 3) % len(SG.PROFILES)] if i < 3 * len(SG.PROFILES) else rng.choice(SG.PROFILES),
                        'flavor': rng.choice(fl), 'gseed': rng.randrange(1 << 30)})
        return out + list(self.e2e_cases(rng, tier))

    def search(self, tier, rng, broken):
        fl = list(self.FLAVOR_WEIGHTS)
        return [{'transport': rng.choice(TRANSPORTS), 'profile': rng.choice(SG.PROFILES), 'flavor': rng.choice(fl),
                 'gseed': rng.randrange(1 << 30)} for _ in range(400)]

    # ---- execution on the real code -----------------------------------------------------------------
    def _key(self, case):
        return id(case)

    def e2e_cases(self, rng, tier):
        return []

    def run_impl(self, case):
        if case.get('kind') == 'e2e':
            from impl.e2e import run_traffic
            self.stats['e2e'] = self.stats.get('e2e', 0) + 1
            return run_traffic(case['sc'])
        from impl.session_run import Runner
        if case.get('cmds'):
            R = SG.replay(case['cmds'], case['transport'], case['profile'], Runner, case.get('extra_caps') or [])
            info = dict(case.get('info') or {})
            cmds = case['cmds']
        else:
            rng = random.Random(case['gseed'])
            cmds, R, info = SG.explore(rng, case['transport'], case['profile'], case['flavor'], Runner)
            info = {k: v for k, v in info.items()}
            case['cmds'] = cmds
            case['extra_caps'] = [c for c in R.session._client_capabilities if c == 'urn:example:extra:1.0']
            case['info'] = {k: info[k] for k in ('flavor', 'faults', 'closed', 'finished', 'want11', 'server_caps', 'n_req', 'server_out_left', 'answered', 'bad_utf8', 'trap') if k in info}
            case['info']['server_texts'] = list(info.get('server_texts', []))
        alive_end = R.session.is_alive()
        R.finish_all()
        self._runs[self._key(case)] = R.lines, R.spans
        st = self.stats
        st['flavors'][case['flavor']] = st['flavors'].get(case['flavor'], 0) + 1
        st['transports'][case['transport']] = st['transports'].get(case['transport'], 0) + 1
        st['profiles'][case['profile']] = st['profiles'].get(case['profile'], 0) + 1
        st['commands'] += len(cmds)
        for f in (case.get('info') or {}).get('faults', []):
            st['faults'][f] = st['faults'].get(f, 0) + 1
        if R.obs and R.obs[-1]['pc'] == 'stopped':
            st['worker_stopped'] += 1
        if R.obs:
            st['replies_delivered'] += sum(1 for x in R.obs[-1]['rpcs'] if ':R' in x)
            st['notifications_taken'] += len(R.obs[-1]['taken'])
        client_caps = list(R.session._client_capabilities)
        req_ids = [getattr(r, '_id', None) if r is not None else None for r in R.rpcs]
        return {'obs': R.obs, 'req_status': R.req_status, 'conn_result': R.conn_result, 'client_caps': client_caps, 'sync_outcomes': dict(R.sync_outcomes), 'req_ids': req_ids,
                'closed_by': list(R.ctl.closed_by), 'alive_end': alive_end}

    # ---- model ----------------------------------------------------------------------------------
    def model_lines(self, case):
        if case.get('kind') in ('e2e', 'connect'):
            return []
        lines, spans = self._runs.get(self._key(case), ([], []))
        return list(lines)

    def model_obs(self, case, outs):
        from impl.session_run import parse_model_obs
        lines, spans = self._runs[self._key(case)]
        res = []
        for (a, b) in spans:
            if b == a:
                res.append(None)
                continue
            line = outs[b - 1]
            res.append(parse_model_obs(line) if not line.startswith('bad') else {'bad': line})
        return res

    def compare(self, case, io, mo):
        if mo is None or case.get('kind') == 'e2e':
            return None
        for i, (r, m) in enumerate(zip(io['obs'], mo)):
            if m is None:
                continue
            if 'bad' in m:
                return 'step %d: driver rejected the operation (%s)' % (i, m['bad'])
            if any(x.endswith(':U') for x in r['rpcs']) and len(r['rpcs']) == len(m['rpcs']):
                # requests nobody references any more: their own outcome is unobservable, everything else is compared
                m = dict(m, rpcs=[a if a.endswith(':U') else b for a, b in zip(r['rpcs'], m['rpcs'])])
            for k in ('pc', 'connected', 'base11', 'wire', 'rpcs', 'taken', 'conn', 'sid'):
                if r[k] != m[k]:
                    return 'step %d (%s): %s differs: impl=%r model=%r' % (i, case['cmds'][i][:2], k, str(r[k])[-200:], str(m[k])[-200:])
            if canon_caps(r['caps']) != canon_caps(m['caps']):
                return 'step %d: server capabilities differ' % i
        return None

    def nontrivial(self, case, io):
        if case.get('kind') == 'e2e':
            return len(io.get('calls', [])) >= 2
        return len(io['obs']) >= 8

    def extra_coverage(self):
        return {'history_stats': self.stats}

    def shrink(self, case, still_fails):
        # drop trailing commands while the failure persists (prefixes of a history are histories)
        if case.get('kind') in ('e2e', 'connect'):
            return case
        cmds = case.get('cmds') or []
        best = case
        lo, hi = 1, len(cmds)
        while lo < hi:
            mid = (lo + hi) // 2
            # facts about the END of the full history (everything read, what was answered) do not hold for a prefix
            cand = dict(case, cmds=cmds[:mid], info=dict(case.get('info') or {}, server_out_left=1, truncated=True))
            if still_fails(cand):
                best, hi = cand, mid
            else:
                lo = mid + 1
        return best


# ---- helpers for the oracles -------------------------------------------------------------------

def client_frames(wire_hex, base11):
    """(hello payload or None, later payloads, status) decoded from the client's byte stream."""
    w = bytes.fromhex(wire_hex)
    i = w.find(DELIM10)
    if i < 0:
        return None, [], 'open'
    hello = w[:i]
    rest = w[i + len(DELIM10):]
    payloads, status = (decode11 if base11 else decode10)(rest)
    return hello, payloads, status


def msg_id_of(raw):
    m = re.search(r'message-id="([^"]+)"', raw)
    return m.group(1) if m else None


def rpc_states(obs):
    out = {}
    for x in obs['rpcs']:
        i, st = x.split(':', 1)
        out[int(i)] = st
    return out


def benign_notification(text):
    """A well-formed <notification> in the RFC 5277 namespace with an eventTime - judged by an independent parser."""
    import xml.etree.ElementTree as ET
    NS = 'urn:ietf:params:xml:ns:netconf:notification:1.0'
    try:
        r = ET.fromstring(text.encode('utf-8'))
    except Exception:
        return False
    et = r.find('{%s}eventTime' % NS)
    return r.tag == '{%s}notification' % NS and et is not None and (et.text or '').startswith('20')
