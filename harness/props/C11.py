"""C11 — notifications are queued exactly once, in order, without disturbing RPCs."""
import re
from props._session import SessionCheck, rpc_states, benign_notification
from core import unhexs
from cases import session_gen as SG


class C11(SessionCheck):
    ID = 'C11'
    PROPS_MODULE = 'NcVerif.Props.C11'
    FLAVOR_WEIGHTS = {'normal': 6, 'late-ready': 1, 'close': 1, 'odd': 1}
    RULE = ('lock-step histories (3 transports x 14 profiles, incl. the five whose reply-namespace check is off) interleaving k '
            'notifications with replies to 0-6 pending requests under arbitrary read segmentation, takes before/after arrival; '
            'plus real-socket sessions (Unix; thorough: TLS) with client threads, blocking and non-blocking takes with measured waits. '
            'Bursts of 1500+ untaken notifications behind a listener that is slow once, 6000 tiny notifications over SSH, notifications of very different sizes under slow object construction, (re)subscription with queued notifications. Non-trivial = history of >= 8 commands / socket run with >= 2 calls; distinct by case.')

    def e2e_cases(self, rng, tier):
        n = 6 if tier == 'quick' else 60
        out = []
        for i in range(n):
            out.append({'kind': 'e2e', 'sc': {'transport': ['unix', 'ssh', 'unix', 'tls'][i % 4] if (tier == 'thorough' or i % 4 != 3) else 'unix',
                                              'profile': SG.PROFILES[i % len(SG.PROFILES)], 'threads': rng.randint(1, 3),
                                              'per_thread': rng.randint(1, 4), 'window': rng.randint(1, 3), 'notifs': rng.randint(1, 8),
                                              'seg': rng.choice(['random', 'whole', 'ones']), 'seed': rng.randrange(1 << 30)}})
        for i in range(2 if tier == 'quick' else 20):
            # a multi-read reply directly followed by a notification in the same final read, then silence (base 1.0 and 1.1)
            out.append({'kind': 'e2e', 'sc': {'transport': 'unix', 'profile': 'default', 'threads': 1, 'per_thread': 1, 'window': 1, 'notifs': 1,
                                              'notif_after_reply': True, 'pad': 3000 + 500 * i, 'seg': 'paced', 'seed': rng.randrange(1 << 30),
                                              'server_caps': None if i % 2 else ['urn:ietf:params:netconf:base:1.0', 'urn:ietf:params:netconf:capability:notification:1.0']}})
        for i in range(2 if tier == 'quick' else 20):
            out.append({'kind': 'e2e', 'sc': {'transport': ['unix', 'ssh'][i % 2], 'profile': 'default', 'threads': 1, 'per_thread': 1, 'window': 1,
                                              'notifs': 0, 'notifs_then_close': 3, 'seg': 'whole', 'seed': rng.randrange(1 << 30), 'after_close': True}})
        for i in range(1 if tier == 'quick' else 4):
            # a large backlog of untaken notifications, then requests: the queue must not push back on the session thread
            out.append({'kind': 'e2e', 'sc': {'transport': 'unix', 'profile': ['default', 'junos'][i % 2], 'threads': 1, 'per_thread': 2, 'window': 1,
                                              # (the requests that follow the burst wait behind it: their timeout grows with its size, so that a
                                              # loaded machine cannot turn "the session is still reading" into an alarm)
                                              'notifs': 0, 'burst': 1500 if tier == 'quick' else 1500 * 4 ** min(i, 2), 'seg': 'whole',
                                              'timeout': 6 if tier == 'quick' else 30, 'slow_first_callback': 0.4,
                                              'seed': rng.randrange(1 << 30)}})
            # the same with MANY SMALL notifications over SSH (the channel buffers what the slow listener has not let the session read yet):
            # thousands of complete messages in one transport read
            out.append({'kind': 'e2e', 'sc': {'transport': 'ssh', 'profile': 'default', 'threads': 1, 'per_thread': 2, 'window': 1,
                                              'notifs': 0, 'burst': 6000 if tier == 'quick' else 20000, 'tiny': True, 'seg': 'whole', 'timeout': 10 if tier == 'quick' else 30, 'slow_first_callback': 0.5,
                                              'seed': rng.randrange(1 << 30)}})
        for i in range(1 if tier == 'quick' else 4):
            # notifications of very different sizes right behind one another, on a machine where building the object for a large one
            # takes a while: arrival order is the order in which they are taken
            out.append({'kind': 'e2e', 'sc': {'transport': ['unix', 'ssh', 'tls'][i % 3], 'profile': ['default', 'junos'][i % 2], 'threads': 1, 'per_thread': 1, 'window': 1,
                                              'notifs': 0, 'burst': 9 + 4 * i, 'mixed_sizes': True, 'slow_construct': True, 'resubscribe': i % 2 == 0, 'seg': 'whole', 'timeout': 6,
                                              'seed': rng.randrange(1 << 30)}})
        return out

    def oracle(self, case, io):
        if case.get('kind') == 'e2e':
            sc = case['sc']
            if io.get('connect') != 'ok':
                return ('C11:e2e-connect', 'connect failed: %s' % io.get('connect'))
            from impl.e2e import notif_text, tiny_notif_text
            if sc.get('tiny'):
                notif_text = tiny_notif_text
            # in the order in which the server put them on the wire (several may be placed into one batch in any order)
            want = io.get('notifs_emitted')
            strip_detail = lambda t: re.sub(r'<detail>.*</detail>', '', t, flags=re.S)
            if want is None or sorted(strip_detail(t) for t in want) != sorted(notif_text(k) for k in range(1, io['notifs_sent'] + 1)):
                return ('C11:harness', 'the fake server did not emit the notifications it counted')
            if io['notifs'] != want:
                return ('C11:notification-lost-or-reordered@' + sc['profile'], 'take_notification returned %d of %d notifications / wrong order or text' % (len(io['notifs']), len(want)))
            bad = [c for c in io['calls'] if c['out'][0] != 'reply']
            if sc.get('after_close'):
                return None
            if bad or not io['connected_before_close']:
                return ('C11:notification-disturbed-rpc@' + sc['profile'], 'with notifications interleaved a request failed (%s) or the session died' % (bad[0]['out'][1] if bad else 'disconnected'))
            if not io['take_empty_nonblocking'] or io['take_empty_nonblocking_dt'] > 1.0:
                return ('C11:take-nonblocking', 'non-blocking take on an empty queue did not return None immediately')
            if not io['take_empty_blocking'] or not (0.2 <= io['take_empty_blocking_dt'] <= 4):
                return ('C11:take-timeout', 'blocking take(timeout=0.25) on an empty queue returned after %.2fs' % io['take_empty_blocking_dt'])
            st, none, dt = io.get('take_nonblocking_with_timeout', ['ok', True, 0])
            if st != 'ok' or not none or dt > 1.5:
                return ('C11:take-nonblocking', 'take_notification(block=False, timeout=3) on an empty queue: %s after %.2fs (expected None at once)' % (st, dt))
            st, none, dt = io.get('take_blocking_zero', ['ok', True, 0])
            if st != 'ok' or not none or dt > 1.5:
                return ('C11:take-timeout', 'take_notification(block=True, timeout=0) on an empty queue: %s after %.2fs (expected None after 0 s)' % (st, dt))
            return None
        info = case.get('info') or {}
        texts = info.get('server_texts', [])
        good = [t for t in texts if benign_notification(t)]
        last = io['obs'][-1]
        taken = [unhexs(t) for t in last['taken']]
        if taken != good[:len(taken)]:
            return ('C11:wrong-notification', 'take_notification returned something that is not the next notification sent')
        # everything that was fully read and dispatched before the end must be handed out by the final takes, session alive or not
        if info.get('finished') and io['conn_result'] == 'ok' and info.get('server_out_left', 1) == 0 and not info.get('faults') \
                and case['flavor'] in ('normal', 'late-ready', 'close') and len(taken) != len(good):
            return ('C11:notification-lost', '%d notifications sent and fully read, %d returned by take_notification' % (len(good), len(taken)))
        clean = case['flavor'] in ('normal', 'late-ready') and not info.get('faults')
        if clean and info.get('finished') and io['conn_result'] == 'ok':
            if info.get('server_out_left', 1) == 0 and len(taken) != len(good) and last['pc'] != 'stopped':
                return ('C11:notification-lost', '%d notifications sent and fully read, %d returned' % (len(good), len(taken)))
            for o in io['obs']:
                if o['pc'] == 'stopped' or any(st.startswith('E') for st in rpc_states(o).values()) or not o['connected']:
                    return ('C11:notification-disturbed-rpc@' + case['profile'],
                            'only replies and notifications were received, yet the session stopped or a request failed (profile %s)' % case['profile'])
        return None


CHECK = C11
