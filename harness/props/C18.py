"""C18 — Junos streaming-filter mode is transparent and segmentation-independent."""
import xml.etree.ElementTree as ET

from core import Check, hexs, unhexs
from cases import junos_gen as G

DELIM = b']]>]]>'


def boundaries(segs):
    out, n = [], 0
    for s in segs[:-1]:
        n += len(s)
        out.append(n)
    return out


def cut_classes(stream, segs):
    """Which known-fragile places do the read boundaries fall into?"""
    cls = set()
    bs = boundaries(segs)
    i = stream.find(DELIM)
    while i >= 0:
        if any(i < b < i + len(DELIM) for b in bs):
            cls.add('inside-delimiter')
        if any(b == i for b in bs):
            cls.add('before-delimiter')
        i = stream.find(DELIM, i + 1)
    for b in bs:
        if b < len(stream) and (stream[b] & 0xC0) == 0x80:
            cls.add('inside-multibyte-char')
        j = stream.rfind(b'</rpc-reply>', 0, b + 12)
        if j >= 0 and j < b < j + 12:
            cls.add('inside-reply-end-tag')
    return cls


class C18(Check):
    ID = 'C18'
    PROPS_MODULE = 'NcVerif.Props.C18'
    RULE = ('(a) the real SAX handler vs the Lean model on the same expat events: random reply documents (with and without repeated tag names) '
            'x filters drawn from the document\'s own paths (or none, or an unknown message-id); (b) the property itself on the real '
            'JunosXMLParser + RPCReplyListener + ExecuteRpc: 1-3 adjacent replies x filters / no filter x EVERY single cut position of short '
            'streams and random multi-cuts of longer ones, result compared with a DOM projection computed by the harness and with the '
            'mode-off result. Non-trivial = a reply with a filter or more than one read; distinct by case.')
    TRUST = ['expat tokenising and the hand-over to the DOM parser are not modelled (environment)',
             '_delimiter_check (difflib heuristics) is NOT modelled at all: covered by the correspondence run only']
    ASSUMPTIONS = ['replies have no mixed content (Junos replies do not); filter tags are unprefixed']

    def cases(self, rng, tier):
        out = []
        n = 250 if tier == 'quick' else 8000
        for i in range(n):
            doc = G.gen_reply_good(rng, 'm1') if i % 3 else G.gen_reply(rng, 'm1')
            flt = G.paths_filter(rng, doc) if rng.random() < 0.8 else None
            # the filter is handed over as a string or (every third case) as an lxml element; one in five filters names the top element only
            if flt and rng.random() < 0.2:
                flt = '<%s/>' % G.ET.fromstring(flt).tag
            out.append({'kind': 'sax', 'doc': doc, 'filter': flt, 'lookup': 'f' if flt else rng.choice('nu'), 'ele': i % 3 == 0})
        # every single cut of a few short streams, with and without filter, one and two replies
        base = ['<rpc-reply message-id="m1" xmlns:junos="http://xml.juniper.net/junos/1.0"><a><b>é1</b><c>x</c></a></rpc-reply>',
                '<rpc-reply message-id="m2"><a><b>2</b></a></rpc-reply>']
        for docs in ([base[0]], base):
            for flts in ([None] * len(docs), ['<a><b/></a>'] * len(docs), (['<a><b/></a>', None] if len(docs) == 2 else ['<a><c/></a>'])):
                stream = ''.join(d + ']]>]]>' for d in docs).encode()
                step = 1 if tier == 'thorough' else 2
                for cut in range(1, len(stream), step):
                    out.append({'kind': 'prop', 'docs': docs, 'filters': list(flts), 'cuts': [cut]})
        for i in range(150 if tier == 'quick' else 5000):
            k = rng.choice([1, 1, 2, 3])
            docs = [G.gen_reply_good(rng, 'm%d' % (j + 1)) for j in range(k)]
            flts = [G.paths_filter(rng, d) if rng.random() < 0.7 else None for d in docs]
            stream = ''.join(d + ']]>]]>' for d in docs).encode()
            ncuts = rng.choice([0, 0, 1, 2, 4])
            cuts = sorted(set(rng.randint(1, len(stream) - 1) for _ in range(ncuts)))
            out.append({'kind': 'prop', 'docs': docs, 'filters': flts, 'cuts': cuts, 'ele': i % 3 == 0})
        for i in range(40 if tier == 'quick' else 1500):
            doc = G.gen_reply(rng, 'm1')
            out.append({'kind': 'prop', 'docs': [doc], 'filters': [G.paths_filter(rng, doc)], 'cuts': []})
        return out

    def _segs(self, case):
        stream = ''.join(d + ']]>]]>' for d in case['docs']).encode()
        pts = [0] + list(case['cuts']) + [len(stream)]
        return stream, [stream[a:b] for a, b in zip(pts, pts[1:])]

    def run_impl(self, case):
        from impl.junos_sax import run
        if case['kind'] == 'sax':
            doc = case['doc']
            if case['lookup'] == 'u':
                doc = doc.replace('message-id="m1"', 'message-id="zz"')
            r = run(True, [case['filter']], [(doc + ']]>]]>').encode()], as_element=case.get('ele', False))
            return {'reply': r['replies'][0], 'error': r['error']}
        stream, segs = self._segs(case)
        r = run(True, case['filters'], segs, as_element=case.get('ele', False))
        off = run(False, [None] * len(case['docs']), segs)
        return {'replies': r['replies'], 'error': r['error'], 'off': off['replies']}

    def model_lines(self, case):
        if case['kind'] != 'sax':
            return []
        ev = G.sax_events(case['doc'])
        if case['lookup'] == 'f':
            return ['js run f %s | %s' % (' '.join(G.filter_tokens(case['filter'])), ' '.join(ev))]
        return ['js run %s | %s' % (case['lookup'], ' '.join(ev))]

    def model_obs(self, case, outs):
        if case['kind'] != 'sax':
            return None
        t = outs[0].split(' ')
        return {'status': t[0], 'out': unhexs(t[1]) if len(t) > 1 else None}

    def compare(self, case, io, mo):
        if mo is None:
            return None
        if mo['status'] == 'ok':
            # the parser strips the dispatched message
            if io['reply'] is None or io['reply'] != mo['out'].strip():
                return 'SAX handler wrote %r, model %r' % ((io['reply'] or '')[:120], mo['out'].strip()[:120])
        elif mo['status'] == 'nofilter':
            if io['reply'] != case['doc']:
                return 'without a filter the reply differs from the document'
        elif mo['status'] == 'unknown':
            if io['error'] != 'OperationError':
                return 'unknown message-id: impl error %r' % io['error']
        elif mo['status'] == 'failed':
            if io['error'] is None and io['reply'] is not None and G.is_good(case['doc']):
                return 'model reports an AttributeError state, impl delivered a reply'
        return None

    def oracle(self, case, io):
        if case['kind'] == 'sax':
            if case['lookup'] == 'n' and io['reply'] != case['doc']:
                return ('C18:no-filter-not-transparent', 'without a filter the reply differs from what the server sent')
            return None
        stream, segs = self._segs(case)
        cls = cut_classes(stream, segs)
        good = all(G.is_good(d) for d in case['docs'])
        for k, (d, f) in enumerate(zip(case['docs'], case['filters'])):
            got = io['replies'][k]
            problem = None
            if got is None:
                problem = 'lost'
            else:
                try:
                    g = G.canon(ET.fromstring(got.encode('utf-8')))
                    want = G.canon(ET.fromstring(d.encode('utf-8'))) if f is None else G.canon(G.project(d, f))
                    if g != want:
                        problem = 'wrong-content'
                    if f is None and got != io['off'][k]:
                        problem = 'differs-from-mode-off'
                except ET.ParseError:
                    problem = 'malformed'
            if problem:
                if not good:
                    key = 'C18:repeated-tag-name-on-a-path'
                elif io['error'] == 'UnicodeDecodeError' or 'inside-multibyte-char' in cls:
                    key = 'C18:read-boundary-inside-multibyte-character'
                elif cls & {'inside-delimiter', 'before-delimiter', 'inside-reply-end-tag'}:
                    key = 'C18:read-boundary-in-reply-end-or-delimiter'
                elif len(segs) > 1:
                    key = 'C18:segmentation-dependent'
                else:
                    key = 'C18:filter-projection'
                return (key, 'reply %d (%s filter, %d reads, boundaries in %s): %s' % (k + 1, 'with' if f else 'no', len(segs), sorted(cls) or '-', problem))
        return None

    def nontrivial(self, case, io):
        if case['kind'] == 'sax':
            return case['lookup'] == 'f'
        return any(case['filters']) or bool(case['cuts'])

    def search(self, tier, rng, broken):
        return []


CHECK = C18
