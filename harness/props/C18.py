"""C18 — Junos streaming-filter mode is transparent and segmentation-independent."""
import xml.etree.ElementTree as ET

from core import Check, hexs, unhexs
from cases import junos_gen as G

DELIM = b']]>]]>'


def boundaries(segs):
    out, n = [], 0
    for s in segs[:-1]:
        n += len(s)
        out.append(n)
    return out


def cut_classes(stream, segs):
    """Which known-fragile places do the read boundaries fall into?"""
    cls = set()
    bs = boundaries(segs)
    i = stream.find(DELIM)
    while i >= 0:
        if any(i < b < i + len(DELIM) for b in bs):
            cls.add('inside-delimiter')
        if any(b == i for b in bs):
            cls.add('before-delimiter')
        i = stream.find(DELIM, i + 1)
    ends = bs[1:] + [len(stream)]
    for b, e in zip(bs, ends):
        if b < len(stream) and (stream[b] & 0xC0) == 0x80:
            cls.add('inside-multibyte-char')
            # the read that BEGINS inside the character also carries (the beginning of) a delimiter: the case _delimiter_check
            # cannot handle on the unchanged tree (it decodes that read on its own)
            d = stream.find(DELIM, b)
            if 0 <= d < e:
                cls.add('multibyte-read-holds-delimiter')
        j = stream.rfind(b'</rpc-reply>', 0, b + 12)
        if j >= 0 and j < b < j + 12:
            cls.add('inside-reply-end-tag')
    return cls


class C18(Check):
    ID = 'C18'
    PROPS_MODULE = 'NcVerif.Props.C18'
    RULE = ('(a) the real SAX handler vs the Lean model on the same expat events: random reply documents (with and without repeated tag names) '
            'x filters drawn from the document\'s own paths (or none, or an unknown message-id); (b) the property itself on the real '
            'JunosXMLParser + RPCReplyListener + ExecuteRpc: 1-3 adjacent replies x filters / no filter x EVERY single cut position of short '
            'streams and random multi-cuts of longer ones, result compared with a DOM projection computed by the harness and with the '
            'mode-off result. Two to four cuts inside the reply start tag, filters given as elements, filters rooted at the reply envelope, two sessions with interleaved reads, late replies. Non-trivial = a reply with a filter or more than one read; distinct by case.')
    TRUST = ['expat tokenising and the hand-over to the DOM parser are not modelled (environment)',
             '_delimiter_check (difflib heuristics) is NOT modelled at all: covered by the correspondence run only']
    ASSUMPTIONS = ['replies have no mixed content (Junos replies do not); filter tags are unprefixed']

    def cases(self, rng, tier):
        out = []
        n = 250 if tier == 'quick' else 8000
        for i in range(n):
            doc = G.gen_reply_good(rng, 'm1') if i % 3 else G.gen_reply(rng, 'm1')
            flt = G.paths_filter(rng, doc) if rng.random() < 0.8 else None
            # the filter is handed over as a string or (every third case) as an lxml element; one in five filters names the top element only
            if flt and rng.random() < 0.2:
                flt = '<%s/>' % G.ET.fromstring(flt).tag
            out.append({'kind': 'sax', 'doc': doc, 'filter': flt, 'lookup': 'f' if flt else rng.choice('nu'), 'ele': i % 3 == 0})
        # every single cut of a few short streams, with and without filter, one and two replies
        base = ['<rpc-reply message-id="m1" xmlns:junos="http://xml.juniper.net/junos/1.0"><a><b>é1</b><c>x</c></a></rpc-reply>',
                '<rpc-reply message-id="m2"><a><b>2</b></a></rpc-reply>']
        for docs in ([base[0]], base):
            for flts in ([None] * len(docs), ['<a><b/></a>'] * len(docs), (['<a><b/></a>', None] if len(docs) == 2 else ['<a><c/></a>'])):
                stream = ''.join(d + ']]>]]>' for d in docs).encode()
                step = 1 if tier == 'thorough' else 2
                for cut in range(1, len(stream), step):
                    out.append({'kind': 'prop', 'docs': docs, 'filters': list(flts), 'cuts': [cut]})
        for i in range(150 if tier == 'quick' else 5000):
            k = rng.choice([1, 1, 2, 3])
            docs = [G.gen_reply_good(rng, 'm%d' % (j + 1)) for j in range(k)]
            flts = [G.paths_filter(rng, d) if rng.random() < 0.7 else None for d in docs]
            # one filter in eight spells its paths from the very top, i.e. is rooted at the reply envelope
            flts = [('<rpc-reply>%s</rpc-reply>' % f) if (f and rng.random() < 0.125) else f for f in flts]
            stream = ''.join(d + ']]>]]>' for d in docs).encode()
            ncuts = rng.choice([0, 0, 1, 2, 4])
            cuts = sorted(set(rng.randint(1, len(stream) - 1) for _ in range(ncuts)))
            late = [0] if (k >= 2 and i % 4 == 1) else []      # the first request's caller timed out; its reply arrives late, before the others
            case = {'kind': 'prop', 'docs': docs, 'filters': flts, 'cuts': cuts, 'ele': i % 3 == 0, 'late': late}
            if k >= 2 and cuts and not late and i % 3 == 2:
                # the second request is ISSUED (public call) only after the first read has come in, i.e. possibly while the reply to the
                # first one is half received
                first_len = len((docs[0] + ']]>]]>').encode())
                if cuts[0] < first_len:
                    case['issue_at'] = {'1': 1}
            out.append(case)
        # the BEGINNING of a reply trickling in: two to four cuts, all before or just after the '>' of the <rpc-reply …> start tag
        # (an XML declaration in a read of its own, a start tag with many namespace declarations cut several times)
        for i in range(90 if tier == 'quick' else 3000):
            k = rng.choice([1, 1, 2])
            docs = [G.gen_reply_good(rng, 'm%d' % (j + 1)) for j in range(k)]
            if i % 2:
                docs[0] = '<?xml version="1.0" encoding="UTF-8"?>\n' + docs[0]
            flts = [G.paths_filter(rng, d.split('?>\n')[-1]) if rng.random() < 0.4 else None for d in docs]
            first = docs[0].encode()
            head = first.index(b'>', first.index(b'<rpc-reply')) + 3
            cuts = sorted(set(rng.randint(1, head) for _ in range(rng.choice([2, 3, 4]))))
            if i % 5 == 0 and first.startswith(b'<?xml'):
                cuts = sorted(set(cuts + [first.index(b'<rpc-reply')]))
            out.append({'kind': 'prop', 'docs': docs, 'filters': flts, 'cuts': cuts, 'ele': i % 3 == 0, 'late': []})
        # two sessions in one process, the same filter text, their reads interleaved (every cut of a short stream with a wrapper
        # element above the filter root, plus random ones): each must get what it gets alone
        wrap = ['<rpc-reply message-id="m1" xmlns:junos="http://xml.juniper.net/junos/1.0"><data><configuration><system><host-name>r%d</host-name><x>1</x></system><y>2</y></configuration></data></rpc-reply>' % k for k in (1, 2)]
        wf = '<configuration><system><host-name/></system></configuration>'
        sa = (wrap[0] + ']]>]]>').encode()
        for cut in range(1, len(sa) - 8, 1 if tier == 'thorough' else 3):
            out.append({'kind': 'pair', 'filter': wf, 'a': wrap[0], 'b': wrap[1], 'cut': cut})
        for i in range(30 if tier == 'quick' else 600):
            da, db = G.gen_reply_good(rng, 'm1'), G.gen_reply_good(rng, 'm1')
            f = G.paths_filter(rng, da)
            out.append({'kind': 'pair', 'filter': f, 'a': da, 'b': da if i % 2 else db, 'cut': rng.randint(1, len(da.encode()) - 1)})
        for i in range(40 if tier == 'quick' else 1500):
            doc = G.gen_reply(rng, 'm1')
            out.append({'kind': 'prop', 'docs': [doc], 'filters': [G.paths_filter(rng, doc)], 'cuts': []})
        return out

    def _segs(self, case):
        stream = ''.join(d + ']]>]]>' for d in case['docs']).encode()
        pts = [0] + list(case['cuts']) + [len(stream)]
        return stream, [stream[a:b] for a, b in zip(pts, pts[1:])]

    def run_impl(self, case):
        from impl.junos_sax import run
        if case['kind'] == 'pair':
            from impl.junos_sax import run_pair
            sa, sb = (case['a'] + ']]>]]>').encode(), (case['b'] + ']]>]]>').encode()
            both = run_pair(case['filter'], sa, case['cut'], sb)
            alone_a = run(True, [case['filter']], [sa[:case['cut']], sa[case['cut']:]])
            alone_b = run(True, [case['filter']], [sb])
            return {'a': both['a'], 'b': both['b'], 'error': both['error'], 'alone_a': alone_a['replies'][0], 'alone_b': alone_b['replies'][0],
                    'alone_err': [alone_a['error'], alone_b['error']]}
        if case['kind'] == 'sax':
            doc = case['doc']
            if case['lookup'] == 'u':
                doc = doc.replace('message-id="m1"', 'message-id="zz"')
            r = run(True, [case['filter']], [(doc + ']]>]]>').encode()], as_element=case.get('ele', False))
            return {'reply': r['replies'][0], 'error': r['error']}
        stream, segs = self._segs(case)
        ia = {int(k): v for k, v in (case.get('issue_at') or {}).items()}
        r = run(True, case['filters'], segs, as_element=case.get('ele', False), timed_out=case.get('late', ()), issue_at=ia)
        off = run(False, [None] * len(case['docs']), segs, timed_out=case.get('late', ()), issue_at=ia)
        return {'replies': r['replies'], 'error': r['error'], 'off': off['replies']}

    def model_lines(self, case):
        if case['kind'] != 'sax':
            return []
        ev = G.sax_events(case['doc'])
        if case['lookup'] == 'f':
            return ['js run f %s | %s' % (' '.join(G.filter_tokens(case['filter'])), ' '.join(ev))]
        return ['js run %s | %s' % (case['lookup'], ' '.join(ev))]

    def model_obs(self, case, outs):
        if case['kind'] != 'sax':
            return None
        t = outs[0].split(' ')
        return {'status': t[0], 'out': unhexs(t[1]) if len(t) > 1 else None}

    def compare(self, case, io, mo):
        if mo is None:
            return None
        if mo['status'] == 'ok':
            # the parser strips the dispatched message
            if io['reply'] is None or io['reply'] != mo['out'].strip():
                return 'SAX handler wrote %r, model %r' % ((io['reply'] or '')[:120], mo['out'].strip()[:120])
        elif mo['status'] == 'nofilter':
            if io['reply'] != case['doc']:
                return 'without a filter the reply differs from the document'
        elif mo['status'] == 'unknown':
            if io['error'] != 'OperationError':
                return 'unknown message-id: impl error %r' % io['error']
        elif mo['status'] == 'failed':
            if io['error'] is None and io['reply'] is not None and G.is_good(case['doc']):
                return 'model reports an AttributeError state, impl delivered a reply'
        return None

    def oracle(self, case, io):
        if case['kind'] == 'pair':
            if io['a'] != io['alone_a'] or io['b'] != io['alone_b'] or (io['error'] and not any(io['alone_err'])):
                return ('C18:sessions-interfere', 'two sessions using the same filter text, reads interleaved at octet %d of the first: session A got %r (alone: %r), '
                        'session B got %r (alone: %r), error %s' % (case['cut'], (io['a'] or '')[:80], (io['alone_a'] or '')[:80], (io['b'] or '')[:80], (io['alone_b'] or '')[:80], io['error']))
            return None
        if case['kind'] == 'sax':
            if case['lookup'] == 'n' and io['reply'] != case['doc']:
                return ('C18:no-filter-not-transparent', 'without a filter the reply differs from what the server sent')
            return None
        stream, segs = self._segs(case)
        cls = cut_classes(stream, segs)
        good = all(G.is_good(d) for d in case['docs'])
        for k, (d, f) in enumerate(zip(case['docs'], case['filters'])):
            got = io['replies'][k]
            problem = None
            if got is None:
                problem = 'lost'
            else:
                try:
                    g = G.canon(ET.fromstring(got.encode('utf-8')))
                    want = G.canon(ET.fromstring(d.encode('utf-8'))) if f is None else G.canon(G.project(d, f))
                    if g != want:
                        problem = 'wrong-content'
                    if f is None and got != io['off'][k]:
                        problem = 'differs-from-mode-off'
                except ET.ParseError:
                    problem = 'malformed'
            if problem:
                if not good:
                    key = 'C18:repeated-tag-name-on-a-path'
                elif f is not None and 'multibyte-read-holds-delimiter' in cls:
                    key = 'C18:read-boundary-inside-multibyte-character'
                elif cls & {'inside-delimiter', 'before-delimiter', 'inside-reply-end-tag'}:
                    key = 'C18:read-boundary-in-reply-end-or-delimiter'
                elif len(segs) > 1:
                    key = 'C18:segmentation-dependent'
                else:
                    key = 'C18:filter-projection'
                return (key, 'reply %d (%s filter, %d reads, boundaries in %s): %s' % (k + 1, 'with' if f else 'no', len(segs), sorted(cls) or '-', problem))
        return None

    def nontrivial(self, case, io):
        if case['kind'] == 'sax':
            return case['lookup'] == 'f'
        if case['kind'] == 'pair':
            return True
        return any(case['filters']) or bool(case['cuts'])

    def search(self, tier, rng, broken):
        return []


CHECK = C18
